package main

// zeroinit.opvariable (C15, C01): WGSL variables in the function and private
// address spaces without an initialiser hold the zero value. In SPIR-V that
// needs an initializer operand on OpVariable (a fourth word: OpConstantNull) -
// a variable declared without one holds an undefined value.
//   (a) the loop over a function's LocalVars (or the module's GlobalVariables)
//       that builds an OpVariable instruction (AddWord ... Build(OpVariable))
//       whose storage-class word is the constant StorageClassFunction or
//       StorageClassPrivate must be able to add a fourth word;
//   (b) a builder function that builds a three-word OpVariable from a
//       storage-class parameter may be called with a constant class that cannot
//       be initialised (Input, Output, Uniform, StorageBuffer, PushConstant,
//       UniformConstant, Workgroup - zeroed by the polyfill), or with a
//       variable class only under a test that excludes StorageClassPrivate.

import (
	"go/ast"
	"go/types"
)

const zeroInitClause = "zero initialisation in SPIR-V (E41): the declarations of the module's function and private variables can carry an OpVariable initializer word (OpConstantNull when WGSL gives none); the three-word builder is used only for storage classes that cannot be initialised or under a test that excludes StorageClassPrivate"

func (c *Ctx) runZeroInitOpVariable(r *Report, rule string) {
	const pkg = "spirv/internal/codegen"
	n := 0
	noInitBuilders := map[*types.Func]int{} // func -> index of the storage-class parameter
	for _, fn := range c.allFuncs() {
		if fn.Pkg.Rel != pkg || fn.Obj == nil {
			continue
		}
		info := fn.Pkg.Info
		var lists [][]ast.Stmt
		ast.Inspect(fn.Decl.Body, func(m ast.Node) bool {
			switch x := m.(type) {
			case *ast.BlockStmt:
				lists = append(lists, x.List)
			case *ast.CaseClause:
				lists = append(lists, x.Body)
			}
			return true
		})
		ord := 0
		for _, list := range lists {
			for bi, st := range list {
				// statement containing Build(OpVariable)
				isBuild := false
				ast.Inspect(st, func(k ast.Node) bool {
					if _, ok := k.(*ast.BlockStmt); ok {
						return false
					}
					if call, ok := k.(*ast.CallExpr); ok && len(call.Args) == 1 {
						if se, ok := call.Fun.(*ast.SelectorExpr); ok && se.Sel.Name == "Build" && irConstNameAny(info, call.Args[0]) == "OpVariable" {
							isBuild = true
						}
					}
					return true
				})
				if !isBuild {
					continue
				}
				// walk back over the AddWord statements of this instruction
				var words []ast.Expr // unconditional words, in order
				condWord := false
				for j := bi - 1; j >= 0; j-- {
					s := list[j]
					if es, ok := s.(*ast.ExprStmt); ok {
						if call, ok := es.X.(*ast.CallExpr); ok {
							if se, ok := call.Fun.(*ast.SelectorExpr); ok {
								if se.Sel.Name == "AddWord" && len(call.Args) == 1 {
									words = append([]ast.Expr{call.Args[0]}, words...)
									continue
								}
								if se.Sel.Name == "Reset" {
									break
								}
							}
						}
					}
					if ifs, ok := s.(*ast.IfStmt); ok {
						has := false
						ast.Inspect(ifs, func(k ast.Node) bool {
							if call, ok := k.(*ast.CallExpr); ok {
								if se, ok := call.Fun.(*ast.SelectorExpr); ok && se.Sel.Name == "AddWord" {
									has = true
								}
							}
							return true
						})
						if has {
							condWord = true
							continue
						}
					}
					if _, ok := s.(*ast.AssignStmt); ok {
						// ib := b.newIB() / id := ... : stop at the builder's creation
						done := false
						ast.Inspect(s, func(k ast.Node) bool {
							if call, ok := k.(*ast.CallExpr); ok {
								if f := calleeOf(info, call); f != nil && f.Name() == "newIB" {
									done = true
								}
							}
							return true
						})
						if done {
							break
						}
						continue
					}
					break
				}
				if len(words) < 3 {
					continue
				}
				sc := ast.Unparen(words[2])
				if call, ok := sc.(*ast.CallExpr); ok && len(call.Args) == 1 {
					sc = ast.Unparen(call.Args[0]) // uint32(StorageClassX)
				}
				scName := irConstNameAny(info, sc)
				hasInit := len(words) >= 4 || condWord
				if scName == "" {
					// storage class is a parameter?
					if id, ok := sc.(*ast.Ident); ok {
						if v, ok := info.Uses[id].(*types.Var); ok {
							sig := fn.Obj.Type().(*types.Signature)
							for i := 0; i < sig.Params().Len(); i++ {
								if sig.Params().At(i) == v && !hasInit {
									noInitBuilders[fn.Obj] = i
								}
							}
						}
					}
					continue
				}
				if scName != "StorageClassFunction" && scName != "StorageClassPrivate" {
					continue
				}
				// only declarations of the module's own variables (a loop over LocalVars / GlobalVariables);
				// internal temporaries (spills, call-argument copies, loop counters) are stored before they are read
				inVarLoop := false
				ast.Inspect(fn.Decl.Body, func(k ast.Node) bool {
					if rs, ok := k.(*ast.RangeStmt); ok && rs.Body.Pos() <= st.Pos() && st.End() <= rs.Body.End() {
						if se, ok := ast.Unparen(rs.X).(*ast.SelectorExpr); ok && (se.Sel.Name == "LocalVars" || se.Sel.Name == "GlobalVariables") {
							inVarLoop = true
						}
					}
					return true
				})
				if !inVarLoop {
					continue
				}
				n++
				ord++
				cons := fn.id() + ":OpVariable(" + scName + ")#" + itoa(ord)
				if hasInit {
					r.ok(rule, cons, c.pos(st.Pos()), "")
				} else {
					r.viol(rule, cons, c.pos(st.Pos()), fn.id()+" builds OpVariable in "+scName+" from exactly three words (result type, id, storage class) on every path: a variable without WGSL initialiser gets no OpConstantNull initializer and holds an undefined value instead of zero")
				}
			}
		}
	}
	// (b) calls of the no-init builders
	uninit := map[string]bool{"StorageClassInput": true, "StorageClassOutput": true, "StorageClassUniform": true, "StorageClassStorageBuffer": true,
		"StorageClassPushConstant": true, "StorageClassUniformConstant": true, "StorageClassWorkgroup": true}
	for _, fn := range c.allFuncs() {
		if fn.Pkg.Rel != pkg {
			continue
		}
		info := fn.Pkg.Info
		ord := 0
		var stack []ast.Node
		ast.Inspect(fn.Decl.Body, func(m ast.Node) bool {
			if m == nil {
				stack = stack[:len(stack)-1]
				return true
			}
			stack = append(stack, m)
			call, ok := m.(*ast.CallExpr)
			if !ok {
				return true
			}
			f := calleeOf(info, call)
			if f == nil {
				return true
			}
			pi, isB := noInitBuilders[f.Origin()]
			if !isB || pi >= len(call.Args) {
				return true
			}
			arg := ast.Unparen(call.Args[pi])
			name := irConstNameAny(info, arg)
			if name != "" && uninit[name] {
				return true // trivially fine, not an obligation
			}
			n++
			ord++
			cons := fn.id() + ":" + f.Name() + "(" + noSpace(types.ExprString(arg)) + ")#" + itoa(ord)
			if name == "StorageClassPrivate" || name == "StorageClassFunction" {
				r.viol(rule, cons, c.pos(call.Pos()), fn.id()+" declares a "+name+" variable through "+f.Name()+", which builds OpVariable without an initializer")
				return true
			}
			// variable class: guarded by a test that mentions StorageClassPrivate?
			guarded := false
			for i := len(stack) - 2; i >= 0 && !guarded; i-- {
				var cond ast.Node
				switch p := stack[i].(type) {
				case *ast.IfStmt:
					cond = p.Cond
				case *ast.CaseClause:
					for _, l := range p.List {
						if irConstNameAny(info, l) != "" {
							guarded = true // a case of a switch over storage classes selects the classes explicitly
						}
					}
				}
				if cond != nil {
					ast.Inspect(cond, func(k ast.Node) bool {
						if e, ok := k.(ast.Expr); ok && irConstNameAny(info, e) == "StorageClassPrivate" {
							guarded = true
						}
						return true
					})
				}
			}
			if guarded {
				r.ok(rule, cons, c.pos(call.Pos()), "")
			} else {
				r.viol(rule, cons, c.pos(call.Pos()), fn.id()+" declares a variable of a storage class computed at run time ("+types.ExprString(arg)+") through "+f.Name()+", which builds OpVariable without an initializer, and no enclosing test excludes StorageClassPrivate: a var<private> without WGSL initialiser holds an undefined value instead of zero")
			}
			return true
		})
	}
	r.inst("zeroinit.opvariable", n)
}

// irConstNameAny: name of the constant e denotes (any package), "" otherwise.
func irConstNameAny(info *types.Info, e ast.Expr) string {
	switch x := ast.Unparen(e).(type) {
	case *ast.Ident:
		if k, ok := info.Uses[x].(*types.Const); ok {
			return k.Name()
		}
	case *ast.SelectorExpr:
		if k, ok := info.Uses[x.Sel].(*types.Const); ok {
			return k.Name()
		}
	}
	return ""
}

func init() {
	dumpers["zeroinit"] = func(c *Ctx, parts []string) {
		r := newReport("dump")
		c.runZeroInitOpVariable(r, "zeroinit.opvariable")
		for _, o := range r.Obs {
			println(o.Verdict, o.Construct, o.Pos, o.Msg)
		}
	}
}
