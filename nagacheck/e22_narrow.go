package main

// scalar.narrow (C03-C05): width-blind scalar naming helpers.
//
// A backend that supports 64-bit integers names integer scalars by kind AND
// width (int / int64_t ...). A helper that takes an ir.ScalarType, switches on
// its Kind and, in the integer arms, never looks at the Width is only right for
// scalars known to be 32-bit or float - in this repository: the scalar of a
// matrix (matrices are float-only). The rule finds such width-blind helpers
// (and the wrappers that forward their own ScalarType parameter to one) and
// requires every call site to pass the Scalar of an ir.MatrixType value, a
// float ScalarType literal, or the caller's own forwarded parameter. Passing a
// vector's or an arbitrary scalar to a width-blind helper names vec2<i64> as
// int2: the 64-bit operands are truncated by HLSL's implicit conversion.

import (
	"go/ast"
	"go/types"
)

func (c *Ctx) runScalarNarrow(r *Report, rule string, pkgRel string) {
	// does the package name 64-bit integers at all?
	wide := false
	type cand struct {
		fn    *funcInfo
		param types.Object
	}
	var blind []cand
	for _, fn := range c.allFuncs() {
		if fn.Pkg.Rel != pkgRel || fn.Decl.Type.Params == nil {
			continue
		}
		info := fn.Pkg.Info
		// ScalarType parameters
		var params []types.Object
		for _, fl := range fn.Decl.Type.Params.List {
			for _, nm := range fl.Names {
				if o := info.Defs[nm]; o != nil && irTypeName(o.Type()) == "ScalarType" {
					params = append(params, o)
				}
			}
		}
		ast.Inspect(fn.Decl.Body, func(m ast.Node) bool {
			sw, ok := m.(*ast.SwitchStmt)
			if !ok || sw.Tag == nil {
				return true
			}
			se, ok := ast.Unparen(sw.Tag).(*ast.SelectorExpr)
			if !ok || se.Sel.Name != "Kind" {
				return true
			}
			id, ok := ast.Unparen(se.X).(*ast.Ident)
			if !ok {
				return true
			}
			var p types.Object
			for _, q := range params {
				if info.Uses[id] == q {
					p = q
				}
			}
			readsWidth := func(body []ast.Stmt) bool {
				hit := false
				for _, s := range body {
					ast.Inspect(s, func(k ast.Node) bool {
						if s2, ok := k.(*ast.SelectorExpr); ok && s2.Sel.Name == "Width" {
							hit = true
						}
						return !hit
					})
				}
				return hit
			}
			intBlind, floatAware, namesInt := false, false, false
			for _, cl := range sw.Body.List {
				cc := cl.(*ast.CaseClause)
				for _, l := range cc.List {
					switch irConstName(info, l) {
					case "ScalarSint", "ScalarUint":
						words := armWords(info, cc.Body, nil)
						if hasStr(words, "int64_t") || hasStr(words, "uint64_t") || hasStr(words, "long") || hasStr(words, "ulong") {
							wide = true
						}
						if hasStr(words, "int") || hasStr(words, "uint") {
							namesInt = true
							if !readsWidth(cc.Body) {
								intBlind = true
							}
						}
					case "ScalarFloat":
						if readsWidth(cc.Body) {
							floatAware = true
						}
					}
				}
			}
			if p != nil && namesInt && intBlind && floatAware {
				blind = append(blind, cand{fn, p})
			}
			return true
		})
	}
	if !wide {
		r.inst("scalar.narrow.sites", 0)
		return
	}
	// close under wrappers: f(s ScalarType, ...) { ... g(s) ... } with g blind in that parameter
	blindParam := map[*types.Func]int{} // function -> index of the blind parameter
	paramIndex := func(fn *funcInfo, o types.Object) int {
		i := 0
		for _, fl := range fn.Decl.Type.Params.List {
			for _, nm := range fl.Names {
				if fn.Pkg.Info.Defs[nm] == o {
					return i
				}
				i++
			}
		}
		return -1
	}
	for _, b := range blind {
		if b.fn.Obj != nil {
			blindParam[b.fn.Obj] = paramIndex(b.fn, b.param)
		}
	}
	type site struct {
		fn   *funcInfo
		call *ast.CallExpr
		arg  ast.Expr
		callee *types.Func
	}
	for changed := true; changed; {
		changed = false
		for _, fn := range c.allFuncs() {
			if fn.Pkg.Rel != pkgRel || fn.Obj == nil || fn.Decl.Type.Params == nil {
				continue
			}
			if _, done := blindParam[fn.Obj]; done {
				continue
			}
			info := fn.Pkg.Info
			ast.Inspect(fn.Decl.Body, func(m ast.Node) bool {
				call, ok := m.(*ast.CallExpr)
				if !ok {
					return true
				}
				f := calleeOf(info, call)
				if f == nil {
					return true
				}
				idx, isBlind := blindParam[f.Origin()]
				if !isBlind || idx >= len(call.Args) {
					return true
				}
				if id, ok := ast.Unparen(call.Args[idx]).(*ast.Ident); ok {
					if o := info.Uses[id]; o != nil {
						if pi := paramIndex(fn, o); pi >= 0 {
							blindParam[fn.Obj] = pi
							changed = true
						}
					}
				}
				return true
			})
		}
	}
	n := 0
	ord := map[string]int{}
	for _, fn := range c.allFuncs() {
		if fn.Pkg.Rel != pkgRel {
			continue
		}
		info := fn.Pkg.Info
		ast.Inspect(fn.Decl.Body, func(m ast.Node) bool {
			call, ok := m.(*ast.CallExpr)
			if !ok {
				return true
			}
			f := calleeOf(info, call)
			if f == nil {
				return true
			}
			idx, isBlind := blindParam[f.Origin()]
			if !isBlind || idx >= len(call.Args) {
				return true
			}
			arg := ast.Unparen(call.Args[idx])
			n++
			cons := fn.id() + "->" + f.Name()
			ord[cons]++
			if ord[cons] > 1 {
				cons += "#" + itoa(ord[cons])
			}
			okArg := false
			switch a := arg.(type) {
			case *ast.SelectorExpr:
				if a.Sel.Name == "Scalar" {
					if tv, ok := info.Types[a.X]; ok && irTypeName(tv.Type) == "MatrixType" {
						okArg = true
					}
				}
			case *ast.Ident:
				if fn.Obj != nil {
					if pi, isB := blindParam[fn.Obj]; isB && paramIndex(fn, info.Uses[a]) == pi {
						okArg = true // forwarded blind parameter: judged at the callers
					}
				}
			case *ast.CompositeLit:
				for _, el := range a.Elts {
					if kv, ok := el.(*ast.KeyValueExpr); ok {
						if id, ok := kv.Key.(*ast.Ident); ok && id.Name == "Kind" && irConstName(info, kv.Value) == "ScalarFloat" {
							okArg = true
						}
					}
				}
			}
			if okArg {
				r.ok(rule, cons, c.pos(call.Pos()), "")
			} else {
				r.viol(rule, cons, c.pos(call.Pos()), fn.id()+" passes "+types.ExprString(arg)+" to "+f.Name()+", which names integer scalars without looking at their width (it is only right for the float scalar of a matrix): a 64-bit integer scalar or vector is named as its 32-bit counterpart")
			}
			return true
		})
	}
	r.inst("scalar.narrow.sites", n)
}

func init() {
	dumpers["narrow"] = func(c *Ctx, parts []string) {
		for _, p := range []string{"hlsl/internal/codegen", "msl/internal/codegen", "glsl/internal/codegen"} {
			r := newReport("dump")
			c.runScalarNarrow(r, "scalar.narrow", p)
			for _, o := range r.Obs {
				println(o.Verdict, o.Construct, o.Pos, o.Msg)
			}
			println(p, r.Instances["scalar.narrow.sites"])
		}
	}
}
