package main

// arith.roundup (C18, C07, C02): rounding up to a multiple.
//
// Container parts, bit-vector tables, struct members and strides are sized and
// aligned with the idioms
//     (x + (k-1)) / k        (x + (k-1)) >> log2(k)
//     (x + (k-1)) &^ (k-1)   (x + (k-1)) & ^(k-1)
// with k a constant or a variable (then the same variable must appear in both
// places: (x + a - 1) &^ (a - 1), (x + a - 1) / a). Every expression of the
// shape (A + c) OP d with OP in {/, >>, &^, & ^} and c, d of those forms must be
// a well-formed instance (c and d describe the same k); and the floor-plus-one
// forms (x >> n) + 1, x/k + 1 - which are one unit too large exactly when x is a
// multiple of k - do not occur in the size computations of the backends. A
// malformed round-up yields a size or offset that disagrees with what the rest
// of the container / layout assumes for some sizes only.

import (
	"go/ast"
	"go/constant"
	"go/token"
	"go/types"
)

func intConstVal(info *types.Info, e ast.Expr) (int64, bool) {
	tv, ok := info.Types[e]
	if !ok || tv.Value == nil {
		return 0, false
	}
	v := tv.Value
	if v.Kind() != constant.Int {
		return 0, false
	}
	// constants like ^uint32(3) are big positive: handle through uint64
	if i, ok := constant.Int64Val(v); ok {
		return i, true
	}
	if u, ok := constant.Uint64Val(v); ok {
		return int64(u), true
	}
	return 0, false
}

type roundSite struct {
	Fn   *funcInfo
	Expr ast.Expr
	OK   bool
	Why  string
	Kind string
}

// splitAdd: e == A + c (c constant) or A + v - 1 (returns v)
func splitAdd(info *types.Info, e ast.Expr) (a ast.Expr, c int64, isConst bool, v string, ok bool) {
	e = ast.Unparen(e)
	be, isB := e.(*ast.BinaryExpr)
	if !isB {
		return nil, 0, false, "", false
	}
	if be.Op == token.ADD {
		if cv, okc := intConstVal(info, be.Y); okc {
			return be.X, cv, true, "", true
		}
	}
	// A + v - 1
	if be.Op == token.SUB {
		if cv, okc := intConstVal(info, be.Y); okc && cv == 1 {
			if inner, ok2 := ast.Unparen(be.X).(*ast.BinaryExpr); ok2 && inner.Op == token.ADD {
				return inner.X, 0, false, types.ExprString(inner.Y), true
			}
		}
	}
	// A + (v - 1)
	if be.Op == token.ADD {
		if inner, ok2 := ast.Unparen(be.Y).(*ast.BinaryExpr); ok2 && inner.Op == token.SUB {
			if cv, okc := intConstVal(info, inner.Y); okc && cv == 1 {
				return be.X, 0, false, types.ExprString(inner.X), true
			}
		}
	}
	return nil, 0, false, "", false
}

func (c *Ctx) roundSites(pkgs func(string) bool) []roundSite {
	var out []roundSite
	for _, fn := range c.allFuncs() {
		if !pkgs(fn.Pkg.Rel) {
			continue
		}
		info := fn.Pkg.Info
		ast.Inspect(fn.Decl.Body, func(m ast.Node) bool {
			be, ok := m.(*ast.BinaryExpr)
			if !ok {
				return true
			}
			if tv, ok := info.Types[be]; ok && tv.Value != nil {
				return false // constant expression
			}
			if tv, ok := info.Types[be]; !ok || tv.Type == nil {
				return true
			} else if b, ok := tv.Type.Underlying().(*types.Basic); !ok || b.Info()&types.IsInteger == 0 {
				return true
			}
			switch be.Op {
			case token.QUO, token.SHR, token.AND_NOT, token.AND:
				_, cAdd, isConst, v, okAdd := splitAdd(info, be.X)
				if !okAdd {
					// floor-plus-one is judged at the enclosing +
					return true
				}
				site := roundSite{Fn: fn, Expr: be, Kind: "roundup"}
				switch be.Op {
				case token.QUO:
					if d, okd := intConstVal(info, be.Y); okd && isConst {
						if d <= 1 {
							return true
						}
						site.OK = cAdd == d-1
						site.Why = "adds " + itoa(int(cAdd)) + " before dividing by " + itoa(int(d))
					} else if !isConst {
						site.OK = types.ExprString(ast.Unparen(be.Y)) == v
						site.Why = "adds " + v + "-1 before dividing by " + types.ExprString(be.Y)
					} else {
						return true
					}
				case token.SHR:
					d, okd := intConstVal(info, be.Y)
					if !okd || !isConst || d <= 0 || d > 30 {
						return true
					}
					site.OK = cAdd == (int64(1)<<uint(d))-1
					site.Why = "adds " + itoa(int(cAdd)) + " before shifting right by " + itoa(int(d))
				case token.AND_NOT:
					if d, okd := intConstVal(info, be.Y); okd && isConst {
						site.OK = cAdd == d && d > 0 && (d&(d+1)) == 0
						site.Why = "adds " + itoa(int(cAdd)) + " before clearing the bits " + itoa(int(d))
					} else if !isConst {
						// (x + a - 1) &^ (a - 1)
						site.OK = false
						if inner, ok2 := ast.Unparen(be.Y).(*ast.BinaryExpr); ok2 && inner.Op == token.SUB {
							if one, ok3 := intConstVal(info, inner.Y); ok3 && one == 1 {
								site.OK = types.ExprString(ast.Unparen(inner.X)) == v
							}
						}
						site.Why = "adds " + v + "-1 before masking with " + types.ExprString(be.Y)
					} else {
						return true
					}
				case token.AND:
					// (x + c) & ^mask  or & ^uint32(c)
					ue, okU := ast.Unparen(be.Y).(*ast.UnaryExpr)
					if !okU || ue.Op != token.XOR {
						return true
					}
					if isConst {
						inner := ue.X
						if call, okc := ast.Unparen(inner).(*ast.CallExpr); okc && len(call.Args) == 1 {
							inner = call.Args[0]
						}
						d, okd := intConstVal(info, inner)
						if !okd {
							return true
						}
						site.OK = cAdd == d && (d&(d+1)) == 0
						site.Why = "adds " + itoa(int(cAdd)) + " before masking with ^" + itoa(int(d))
					} else {
						site.OK = false
						inner := ast.Unparen(ue.X)
						if call, okc := inner.(*ast.CallExpr); okc && len(call.Args) == 1 {
							inner = ast.Unparen(call.Args[0])
						}
						if ib, ok2 := inner.(*ast.BinaryExpr); ok2 && ib.Op == token.SUB {
							if one, ok3 := intConstVal(info, ib.Y); ok3 && one == 1 {
								site.OK = types.ExprString(ast.Unparen(ib.X)) == v
							}
						}
						site.Why = "adds " + v + "-1 before masking with " + types.ExprString(be.Y)
					}
				}
				out = append(out, site)
			case token.ADD:
				// floor-plus-one: (x >> n) + 1, x/k + 1
				if one, ok1 := intConstVal(info, be.Y); ok1 && one == 1 {
					if inner, ok2 := ast.Unparen(be.X).(*ast.BinaryExpr); ok2 && (inner.Op == token.SHR || inner.Op == token.QUO) {
						if d, okd := intConstVal(info, inner.Y); okd && d >= 2 {
							out = append(out, roundSite{Fn: fn, Expr: be, Kind: "floorplus1", OK: false, Why: "floor division plus one is one unit too large whenever the dividend is a multiple of the divisor"})
						}
					}
				}
			}
			return true
		})
	}
	return out
}

var roundUpExceptions = map[string]string{
	"dxil/internal/container.retailMD5:(byteCount+padAmount+8)>>6": "not a round-up: byteCount + padAmount + 8 is by construction a multiple of 64 (padAmount pads the message to 56 mod 64, 8 length bytes follow); the shift is an exact division into blocks",
}

func (c *Ctx) runRoundUp(r *Report, rule string, pkgs func(string) bool, family string) {
	ord := map[string]int{}
	n := 0
	for _, s := range c.roundSites(pkgs) {
		cons := s.Fn.id() + ":" + noSpace(types.ExprString(s.Expr))
		ord[cons]++
		if ord[cons] > 1 {
			cons += "#" + itoa(ord[cons])
		}
		pos := c.pos(s.Expr.Pos())
		if s.Kind == "roundup" {
			n++
		}
		if s.OK {
			r.ok(rule, cons, pos, "")
		} else if reason, ok := roundUpExceptions[cons]; ok {
			r.exc(rule, cons, pos, reason)
		} else if s.Kind == "floorplus1" {
			r.viol(rule, cons, pos, s.Fn.id()+" computes "+types.ExprString(s.Expr)+": "+s.Why+" (use the add-then-divide round-up idiom)")
		} else {
			r.viol(rule, cons, pos, s.Fn.id()+" rounds up with a malformed idiom: "+types.ExprString(s.Expr)+" "+s.Why+": the result is not the next multiple for some values")
		}
	}
	r.inst(family, n)
}

func init() {
	dumpers["roundup"] = func(c *Ctx, parts []string) {
		for _, s := range c.roundSites(func(string) bool { return true }) {
			mark := "ok "
			if !s.OK {
				mark = "BAD"
			}
			println(mark, s.Kind, s.Fn.id(), c.pos(s.Expr.Pos()), types.ExprString(s.Expr), "|", s.Why)
		}
	}
}
