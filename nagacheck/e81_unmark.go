package main

import (
	"go/ast"
	"go/types"
)

// unmark.remarked (C13): a liveness pass that clears marks again (live[h] =
// false) because one consumer turned out dead has to be sure that no other
// consumer remains. Consumers are expressions AND statements (the condition
// of another if, a returned value). Where the check that guards the clearing
// scans the expression arena only, the function that runs the unmarking must
// afterwards run a marking from the statements that stay (a function that
// reaches the statement-root marker: a type switch over statement kinds that
// calls a func(ir.ExpressionHandle) parameter), before anything is swept.
func (c *Ctx) runUnmarkRemarked(r *Report, rule string, inPkg func(string) bool) {
	n := 0
	// statement-root markers of each package
	isRootMarker := func(fi *funcInfo) bool {
		sig := fi.Obj.Type().(*types.Signature)
		hasCb := false
		for i := 0; i < sig.Params().Len(); i++ {
			if fs, ok := sig.Params().At(i).Type().Underlying().(*types.Signature); ok && fs.Params().Len() == 1 && irTypeName(fs.Params().At(0).Type()) == "ExpressionHandle" {
				hasCb = true
			}
		}
		if !hasCb {
			return false
		}
		found := false
		ast.Inspect(fi.Decl.Body, func(m ast.Node) bool {
			if ts, ok := m.(*ast.TypeSwitchStmt); ok {
				for _, cl := range ts.Body.List {
					for _, e := range cl.(*ast.CaseClause).List {
						if t, ok := fi.Pkg.Info.Types[e]; ok {
							// a marker of ROOTS: it has an arm for the return statement (a
							// walker that only follows calls and nested blocks is a
							// propagation step, not a re-marking of what stays)
							if nm := irTypeName(derefType(t.Type)); nm == "StmtReturn" {
								found = true
							}
						}
					}
				}
			}
			return true
		})
		return found
	}
	clears := func(fi *funcInfo) bool {
		found := false
		ast.Inspect(fi.Decl.Body, func(m ast.Node) bool {
			as, ok := m.(*ast.AssignStmt)
			if !ok || len(as.Lhs) != 1 || len(as.Rhs) != 1 {
				return true
			}
			if ix, ok := as.Lhs[0].(*ast.IndexExpr); ok {
				if id, ok := ix.X.(*ast.Ident); ok && id.Name == "live" {
					if v, ok := as.Rhs[0].(*ast.Ident); ok && v.Name == "false" {
						found = true
					}
				}
			}
			return true
		})
		return found
	}
	for _, fn := range c.allFuncs() {
		if !inPkg(fn.Pkg.Rel) || fn.Obj == nil || fn.Decl.Body == nil {
			continue
		}
		// the pass driver: an exported function of the package
		if !fn.Obj.Exported() {
			continue
		}
		info := fn.Pkg.Info
		// top-level statements of fn that call into a clearing function / a root marker
		clearIdx, markAfter := -1, false
		for i, st := range fn.Decl.Body.List {
			ast.Inspect(st, func(k ast.Node) bool {
				call, ok := k.(*ast.CallExpr)
				if !ok {
					return true
				}
				f := calleeOf(info, call)
				if f == nil {
					return true
				}
				fi := c.funcByObj(f)
				if fi == nil || fi.Pkg.Rel != fn.Pkg.Rel || fi == fn {
					return true
				}
				reachClear, reachMark := false, false
				for g := range c.reach(f) {
					gi := c.funcByObj(g)
					if gi == nil || gi.Decl.Body == nil || gi.Pkg.Rel != fn.Pkg.Rel {
						continue
					}
					if clears(gi) {
						reachClear = true
					}
					if isRootMarker(gi) {
						reachMark = true
					}
				}
				if reachClear && clearIdx < 0 {
					clearIdx = i
				} else if reachMark && clearIdx >= 0 && i > clearIdx {
					markAfter = true
				}
				return true
			})
		}
		if clearIdx < 0 {
			continue
		}
		n++
		cons := fn.id() + ":unmark"
		if markAfter {
			r.ok(rule, cons, c.pos(fn.Decl.Body.List[clearIdx].Pos()), "")
		} else {
			r.viol(rule, cons, c.pos(fn.Decl.Body.List[clearIdx].Pos()), fn.id()+" runs a pass that clears liveness marks and never marks again from the statements that stay: an expression that a dead statement shared with a surviving one (the condition of a second if) is swept although it is still used")
		}
	}
	r.inst(rule, n)
}

func init() {
	dumpers["unmark"] = func(c *Ctx, parts []string) {
		r := newReport("dump")
		c.runUnmarkRemarked(r, "unmark.remarked", inPkgs("dxil/internal/passes", "ir"))
		for _, o := range r.Obs {
			println(o.Verdict, o.Construct, o.Pos)
		}
	}
}

// unmark.propagatedagain (C13): before it clears marks, the driver runs
// propagation steps over the mark array (functions that are handed the []bool
// and set entries: the values stored into live locals, the arguments of calls
// whose result is live). Clearing can take away what such a step had marked
// for a statement that stays (a store into a live local is not a root, so the
// statement re-marker does not look at it). Every propagation step the driver
// runs before the clearing must run again after it.
func (c *Ctx) runUnmarkPropagatedAgain(r *Report, rule string, inPkg func(string) bool) {
	n := 0
	sets := func(fi *funcInfo, val string) bool {
		found := false
		ast.Inspect(fi.Decl.Body, func(m ast.Node) bool {
			as, ok := m.(*ast.AssignStmt)
			if !ok || len(as.Lhs) != 1 || len(as.Rhs) != 1 {
				return true
			}
			if ix, ok := as.Lhs[0].(*ast.IndexExpr); ok {
				if t, ok := fi.Pkg.Info.TypeOf(ix.X).Underlying().(*types.Slice); ok && isBoolType(t.Elem()) {
					if v, ok := as.Rhs[0].(*ast.Ident); ok && v.Name == val {
						found = true
					}
				}
			}
			return true
		})
		return found
	}
	for _, fn := range c.allFuncs() {
		if !inPkg(fn.Pkg.Rel) || fn.Obj == nil || fn.Decl.Body == nil || !fn.Obj.Exported() {
			continue
		}
		info := fn.Pkg.Info
		type step struct {
			f   *types.Func
			idx int
			pos ast.Node
		}
		var steps []step
		clearIdx := -1
		for i, st := range fn.Decl.Body.List {
			ast.Inspect(st, func(k ast.Node) bool {
				if _, isLit := k.(*ast.FuncLit); isLit {
					return false
				}
				call, ok := k.(*ast.CallExpr)
				if !ok {
					return true
				}
				f := calleeOf(info, call)
				if f == nil {
					return true
				}
				fi := c.funcByObj(f)
				if fi == nil || fi.Pkg.Rel != fn.Pkg.Rel || fi == fn {
					return true
				}
				takesMarks := false
				for _, a := range call.Args {
					if t, ok := info.TypeOf(a).Underlying().(*types.Slice); ok && isBoolType(t.Elem()) {
						takesMarks = true
					}
				}
				if !takesMarks {
					return true
				}
				reachClear, reachSet := false, false
				for g := range c.reach(f) {
					gi := c.funcByObj(g)
					if gi == nil || gi.Decl.Body == nil || gi.Pkg.Rel != fn.Pkg.Rel {
						continue
					}
					if sets(gi, "false") {
						reachClear = true
					}
					if sets(gi, "true") {
						reachSet = true
					}
				}
				// a step that is handed a marking callback instead of setting entries itself
				for _, a := range call.Args {
					if fs, ok := info.TypeOf(a).Underlying().(*types.Signature); ok && fs.Params().Len() == 1 && irTypeName(fs.Params().At(0).Type()) == "ExpressionHandle" {
						reachSet = true
					}
				}
				if reachClear && clearIdx < 0 {
					clearIdx = i
				}
				if reachSet && !reachClear {
					steps = append(steps, step{f, i, call})
				}
				return true
			})
		}
		if clearIdx < 0 {
			continue
		}
		seen := map[*types.Func]bool{}
		for _, s := range steps {
			if s.idx >= clearIdx || seen[s.f] {
				continue
			}
			seen[s.f] = true
			n++
			cons := fn.id() + ":" + s.f.Name()
			again := false
			for _, t := range steps {
				if t.f == s.f && t.idx > clearIdx {
					again = true
				}
			}
			if again {
				r.ok(rule, cons, c.pos(s.pos.Pos()), "")
			} else {
				r.viol(rule, cons, c.pos(s.pos.Pos()), fn.id()+" runs the propagation step "+s.f.Name()+" over the marks before it clears marks and not again afterwards: what the step had marked for a statement that stays (the value of a store into a live local) can be cleared and is then swept")
			}
		}
	}
	r.inst(rule, n)
}

func init() {
	dumpers["propagain"] = func(c *Ctx, parts []string) {
		r := newReport("dump")
		c.runUnmarkPropagatedAgain(r, "unmark.propagatedagain", inPkgs("dxil/internal/passes", "ir"))
		for _, o := range r.Obs {
			println(o.Verdict, o.Construct, o.Pos)
		}
	}
}
