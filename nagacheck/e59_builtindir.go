package main

import (
	"go/ast"
	"go/token"
	"go/types"
)

// builtin.direction (C17, C05): WGSL has two built-in values that are an input
// in one position and an output in another: position (vertex output / fragment
// input) and sample_mask (fragment input / fragment output). A function that
// names built-ins for a target and is told the direction (a bool parameter
// next to the ir.BuiltinValue) must consult that parameter in the arms for
// these two, unless the target spells both directions alike - which the
// function shows by having no arm at all that consults it.
func (c *Ctx) runBuiltinDirection(r *Report, rule string, inPkg func(string) bool) {
	twoWay := map[string]bool{"BuiltinPosition": true, "BuiltinSampleMask": true}
	n := 0
	for _, fn := range c.allFuncs() {
		if !inPkg(fn.Pkg.Rel) || fn.Obj == nil || fn.Decl.Body == nil {
			continue
		}
		sig := fn.Obj.Type().(*types.Signature)
		var bv, dir *types.Var
		for i := 0; i < sig.Params().Len(); i++ {
			p := sig.Params().At(i)
			if irTypeName(p.Type()) == "BuiltinValue" {
				bv = p
			}
			if b, ok := p.Type().Underlying().(*types.Basic); ok && b.Kind() == types.Bool {
				dir = p
			}
		}
		if bv == nil || dir == nil {
			continue
		}
		info := fn.Pkg.Info
		uses := func(n ast.Node) bool {
			found := false
			ast.Inspect(n, func(k ast.Node) bool {
				if id, ok := k.(*ast.Ident); ok && info.ObjectOf(id) == dir {
					found = true
				}
				return true
			})
			return found
		}
		ast.Inspect(fn.Decl.Body, func(m ast.Node) bool {
			sw, ok := m.(*ast.SwitchStmt)
			if !ok || sw.Tag == nil {
				return true
			}
			id, ok := ast.Unparen(sw.Tag).(*ast.Ident)
			if !ok || info.ObjectOf(id) != bv {
				return true
			}
			anyUses := false
			type arm struct {
				name string
				cc   *ast.CaseClause
			}
			var arms []arm
			for _, cl := range sw.Body.List {
				cc := cl.(*ast.CaseClause)
				if uses(cc) {
					anyUses = true
				}
				for _, e := range cc.List {
					if name := irConstNameAny(info, e); twoWay[name] {
						arms = append(arms, arm{name, cc})
					}
				}
			}
			if !anyUses {
				return true // the target spells both directions alike
			}
			for _, a := range arms {
				n++
				cons := fn.id() + ":" + a.name
				if uses(a.cc) {
					r.ok(rule, cons, c.pos(a.cc.Pos()), "")
				} else {
					r.viol(rule, cons, c.pos(a.cc.Pos()), fn.id()+" is told the direction ("+dir.Name()+") and uses it for other built-ins, but names "+a.name+" the same way as an input and as an output; WGSL uses this built-in in both directions")
				}
			}
			return true
		})
	}
	// comparison form: `x == ir.BuiltinSampleMask` (or Position) inside a condition of a function
	// that has a direction parameter: the condition must mention that parameter
	for _, fn := range c.allFuncs() {
		if !inPkg(fn.Pkg.Rel) || fn.Obj == nil || fn.Decl.Body == nil {
			continue
		}
		sig := fn.Obj.Type().(*types.Signature)
		var dir *types.Var
		for i := 0; i < sig.Params().Len(); i++ {
			p := sig.Params().At(i)
			if b, ok := p.Type().Underlying().(*types.Basic); ok && b.Kind() == types.Bool && (p.Name() == "isOutput" || p.Name() == "output" || p.Name() == "isInput") {
				dir = p
			}
		}
		if dir == nil {
			continue
		}
		info := fn.Pkg.Info
		ord := 0
		// the direction and what is computed from it
		dirs := map[types.Object]bool{dir: true}
		for pass := 0; pass < 2; pass++ {
			ast.Inspect(fn.Decl.Body, func(m ast.Node) bool {
				as, ok := m.(*ast.AssignStmt)
				if !ok || len(as.Lhs) != 1 || len(as.Rhs) != 1 {
					return true
				}
				if id, ok := as.Lhs[0].(*ast.Ident); ok && mentionsObjs(info, as.Rhs[0], dirs) {
					dirs[info.ObjectOf(id)] = true
				}
				return true
			})
		}
		ast.Inspect(fn.Decl.Body, func(m ast.Node) bool {
			is, ok := m.(*ast.IfStmt)
			if !ok {
				return true
			}
			which := ""
			ast.Inspect(is.Cond, func(k ast.Node) bool {
				be, ok := k.(*ast.BinaryExpr)
				if !ok || be.Op != token.EQL {
					return true
				}
				for _, e := range []ast.Expr{be.X, be.Y} {
					if name := irConstNameAny(info, e); twoWay[name] {
						which = name
					}
				}
				return true
			})
			if which == "" {
				return true
			}
			ord++
			n++
			cons := fn.id() + ":if:" + which + "#" + itoa(ord)
			mentions := false
			ast.Inspect(is.Cond, func(k ast.Node) bool {
				if id, ok := k.(*ast.Ident); ok && dirs[info.ObjectOf(id)] {
					mentions = true
				}
				return true
			})
			// the direction may have been tested by an enclosing if
			if !mentions {
				ast.Inspect(fn.Decl.Body, func(k ast.Node) bool {
					outer, ok := k.(*ast.IfStmt)
					if !ok || outer == is || !(outer.Body.Pos() <= is.Pos() && is.End() <= outer.Body.End()) {
						return true
					}
					ast.Inspect(outer.Cond, func(q ast.Node) bool {
						if id, ok := q.(*ast.Ident); ok && dirs[info.ObjectOf(id)] {
							mentions = true
						}
						return true
					})
					return true
				})
			}
			switch {
			case mentions:
				r.ok(rule, cons, c.pos(is.Pos()), "")
			case builtinDirExceptions[cons] != "":
				r.exc(rule, cons, c.pos(is.Pos()), builtinDirExceptions[cons])
			default:
				r.viol(rule, cons, c.pos(is.Pos()), fn.id()+" is told the direction ("+dir.Name()+") but decides about "+which+" without it; WGSL uses this built-in as an input and as an output")
			}
			return true
		})
	}
	r.inst(rule, n)
}

func init() {
	dumpers["builtindir"] = func(c *Ctx, parts []string) {
		r := newReport("dump")
		c.runBuiltinDirection(r, "builtin.direction", func(string) bool { return true })
		for _, o := range r.Obs {
			println(o.Verdict, o.Construct, o.Pos)
		}
	}
}

var builtinDirExceptions = map[string]string{
	"dxil/internal/emit.makeSigInfo:if:BuiltinPosition#1": "the component type and width of SV_Position (float4) are the same for the vertex output and the fragment input",
}
