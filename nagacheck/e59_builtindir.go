package main

import (
	"go/ast"
	"go/types"
)

// builtin.direction (C17, C05): WGSL has two built-in values that are an input
// in one position and an output in another: position (vertex output / fragment
// input) and sample_mask (fragment input / fragment output). A function that
// names built-ins for a target and is told the direction (a bool parameter
// next to the ir.BuiltinValue) must consult that parameter in the arms for
// these two, unless the target spells both directions alike - which the
// function shows by having no arm at all that consults it.
func (c *Ctx) runBuiltinDirection(r *Report, rule string, inPkg func(string) bool) {
	twoWay := map[string]bool{"BuiltinPosition": true, "BuiltinSampleMask": true}
	n := 0
	for _, fn := range c.allFuncs() {
		if !inPkg(fn.Pkg.Rel) || fn.Obj == nil || fn.Decl.Body == nil {
			continue
		}
		sig := fn.Obj.Type().(*types.Signature)
		var bv, dir *types.Var
		for i := 0; i < sig.Params().Len(); i++ {
			p := sig.Params().At(i)
			if irTypeName(p.Type()) == "BuiltinValue" {
				bv = p
			}
			if b, ok := p.Type().Underlying().(*types.Basic); ok && b.Kind() == types.Bool {
				dir = p
			}
		}
		if bv == nil || dir == nil {
			continue
		}
		info := fn.Pkg.Info
		uses := func(n ast.Node) bool {
			found := false
			ast.Inspect(n, func(k ast.Node) bool {
				if id, ok := k.(*ast.Ident); ok && info.ObjectOf(id) == dir {
					found = true
				}
				return true
			})
			return found
		}
		ast.Inspect(fn.Decl.Body, func(m ast.Node) bool {
			sw, ok := m.(*ast.SwitchStmt)
			if !ok || sw.Tag == nil {
				return true
			}
			id, ok := ast.Unparen(sw.Tag).(*ast.Ident)
			if !ok || info.ObjectOf(id) != bv {
				return true
			}
			anyUses := false
			type arm struct {
				name string
				cc   *ast.CaseClause
			}
			var arms []arm
			for _, cl := range sw.Body.List {
				cc := cl.(*ast.CaseClause)
				if uses(cc) {
					anyUses = true
				}
				for _, e := range cc.List {
					if name := irConstNameAny(info, e); twoWay[name] {
						arms = append(arms, arm{name, cc})
					}
				}
			}
			if !anyUses {
				return true // the target spells both directions alike
			}
			for _, a := range arms {
				n++
				cons := fn.id() + ":" + a.name
				if uses(a.cc) {
					r.ok(rule, cons, c.pos(a.cc.Pos()), "")
				} else {
					r.viol(rule, cons, c.pos(a.cc.Pos()), fn.id()+" is told the direction ("+dir.Name()+") and uses it for other built-ins, but names "+a.name+" the same way as an input and as an output; WGSL uses this built-in in both directions")
				}
			}
			return true
		})
	}
	r.inst(rule, n)
}

func init() {
	dumpers["builtindir"] = func(c *Ctx, parts []string) {
		r := newReport("dump")
		c.runBuiltinDirection(r, "builtin.direction", func(string) bool { return true })
		for _, o := range r.Obs {
			println(o.Verdict, o.Construct, o.Pos)
		}
	}
}
