package main

import (
	"go/ast"
	"go/types"
)

// cachekey.mapped (C02): a type-instruction cache must have one entry per
// distinct instruction, since SPIR-V forbids declaring a non-aggregate type
// twice. Where the emitting function writes a field of its parameter only
// through a mapping function M (AddWord(M(p.F)) or v = M(p.F)), the key
// function it uses for its cache (v := K(p); cache[v]) must use M(p.F) too:
// keyed on the raw field, two values that M maps to the same operand give two
// identical instructions.
func (c *Ctx) runCacheKeyMapped(r *Report, rule string, pkg string) {
	n := 0
	for _, fn := range c.allFuncs() {
		if fn.Pkg.Rel != pkg || fn.Obj == nil || fn.Decl.Body == nil {
			continue
		}
		info := fn.Pkg.Info
		sig := fn.Obj.Type().(*types.Signature)
		params := map[types.Object]bool{}
		for i := 0; i < sig.Params().Len(); i++ {
			params[sig.Params().At(i)] = true
		}
		// key := K(p) used to index a map field
		type keyUse struct {
			k *types.Func
			p types.Object
		}
		var keys []keyUse
		keyVars := map[types.Object]keyUse{}
		ast.Inspect(fn.Decl.Body, func(m ast.Node) bool {
			as, ok := m.(*ast.AssignStmt)
			if !ok || len(as.Lhs) != 1 || len(as.Rhs) != 1 {
				return true
			}
			call, ok := ast.Unparen(as.Rhs[0]).(*ast.CallExpr)
			if !ok || len(call.Args) != 1 {
				return true
			}
			k := calleeOf(info, call)
			pid, ok2 := ast.Unparen(call.Args[0]).(*ast.Ident)
			if k == nil || !ok2 || !params[info.ObjectOf(pid)] || c.funcByObj(k) == nil {
				return true
			}
			if id, ok := as.Lhs[0].(*ast.Ident); ok {
				keyVars[info.ObjectOf(id)] = keyUse{k, info.ObjectOf(pid)}
			}
			return true
		})
		ast.Inspect(fn.Decl.Body, func(m ast.Node) bool {
			ix, ok := m.(*ast.IndexExpr)
			if !ok {
				return true
			}
			if tv, ok := info.Types[ix.X]; !ok || tv.Type == nil {
				return true
			} else if _, isMap := tv.Type.Underlying().(*types.Map); !isMap {
				return true
			}
			if id, ok := ast.Unparen(ix.Index).(*ast.Ident); ok {
				if ku, ok := keyVars[info.ObjectOf(id)]; ok {
					dup := false
					for _, e := range keys {
						if e == ku {
							dup = true
						}
					}
					if !dup {
						keys = append(keys, ku)
					}
				}
			}
			return true
		})
		for _, ku := range keys {
			// fields of p the emitter passes through a module function M: M(p.F)
			mapped := map[string]*types.Func{}
			ast.Inspect(fn.Decl.Body, func(m ast.Node) bool {
				call, ok := m.(*ast.CallExpr)
				if !ok || len(call.Args) != 1 {
					return true
				}
				mf := calleeOf(info, call)
				if mf == nil || c.funcByObj(mf) == nil || mf == ku.k {
					return true
				}
				if se, ok := ast.Unparen(call.Args[0]).(*ast.SelectorExpr); ok {
					if id, ok := ast.Unparen(se.X).(*ast.Ident); ok && info.ObjectOf(id) == ku.p {
						// only value mappings: one result, not an error
						if res := mf.Type().(*types.Signature).Results(); res.Len() == 1 {
							mapped[se.Sel.Name] = mf
						}
					}
				}
				return true
			})
			kfi := c.funcByObj(ku.k)
			if kfi == nil || kfi.Decl.Body == nil {
				continue
			}
			kinfo := kfi.Pkg.Info
			ksig := ku.k.Type().(*types.Signature)
			if ksig.Params().Len() != 1 {
				continue
			}
			kp := ksig.Params().At(0)
			for fld, mf := range mapped {
				// how the key function uses p.<fld>
				raw, viaM := false, false
				var rawPos ast.Node
				ast.Inspect(kfi.Decl.Body, func(m ast.Node) bool {
					if call, ok := m.(*ast.CallExpr); ok && len(call.Args) == 1 {
						if se, ok := ast.Unparen(call.Args[0]).(*ast.SelectorExpr); ok && se.Sel.Name == fld {
							if id, ok := ast.Unparen(se.X).(*ast.Ident); ok && kinfo.ObjectOf(id) == kp {
								if cf := calleeOf(kinfo, call); cf == mf {
									viaM = true
									return false
								}
							}
						}
					}
					if se, ok := m.(*ast.SelectorExpr); ok && se.Sel.Name == fld {
						if id, ok := ast.Unparen(se.X).(*ast.Ident); ok && kinfo.ObjectOf(id) == kp {
							raw = true
							rawPos = se
						}
					}
					return true
				})
				if !raw && !viaM {
					continue // the key does not depend on the field
				}
				n++
				cons := fn.id() + ":" + ku.k.Name() + ":" + fld
				if raw {
					r.viol(rule, cons, c.pos(rawPos.Pos()), ku.k.Name()+" keys the cache of "+fn.id()+" on the raw field "+fld+", but the instruction is written with "+mf.Name()+"("+fld+"): two values that "+mf.Name()+" maps to the same operand produce the same type instruction twice")
				} else {
					r.ok(rule, cons, c.pos(kfi.Decl.Pos()), "")
				}
			}
		}
	}
	r.inst(rule, n)
}

func init() {
	dumpers["cachekeymapped"] = func(c *Ctx, parts []string) {
		r := newReport("dump")
		c.runCacheKeyMapped(r, "cachekey.mapped", "spirv/internal/codegen")
		for _, o := range r.Obs {
			println(o.Verdict, o.Construct, o.Pos)
		}
	}
}
