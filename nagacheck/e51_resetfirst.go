package main

// reset.first (C12): a reusable object's entry point resets the per-call state
// (a method of the same receiver whose body only re-initialises fields) before
// anything else looks at that state. A read of a field the reset method writes
// (b.options.Version, restored from the version the caller asked for) that
// precedes the reset call in the entry point sees what the PREVIOUS call left
// behind: the output of a call then depends on the calls before it.

import (
	"go/ast"
	"go/types"
	"strings"
)

func (c *Ctx) runResetFirst(r *Report, rule string, pkgs func(string) bool) {
	n := 0
	for _, fn := range c.allFuncs() {
		if !pkgs(fn.Pkg.Rel) || fn.Obj == nil || fn.Decl.Recv == nil || len(fn.Decl.Recv.List) == 0 || len(fn.Decl.Recv.List[0].Names) == 0 {
			continue
		}
		info := fn.Pkg.Info
		recv := info.Defs[fn.Decl.Recv.List[0].Names[0]]
		if recv == nil {
			continue
		}
		// top-level statement `recv.M()` where M is a method of the same type that (mostly) assigns fields of its receiver
		for si, st := range fn.Decl.Body.List {
			es, ok := st.(*ast.ExprStmt)
			if !ok {
				continue
			}
			call, ok := es.X.(*ast.CallExpr)
			if !ok || len(call.Args) != 0 {
				continue
			}
			se, ok := call.Fun.(*ast.SelectorExpr)
			if !ok {
				continue
			}
			if id, ok := se.X.(*ast.Ident); !ok || info.Uses[id] != recv {
				continue
			}
			m := calleeOf(info, call)
			if m == nil {
				continue
			}
			mi := c.funcByObj(m.Origin())
			if mi == nil || mi.Decl.Recv == nil || len(mi.Decl.Recv.List[0].Names) == 0 {
				continue
			}
			mrecv := mi.Pkg.Info.Defs[mi.Decl.Recv.List[0].Names[0]]
			// write set of M: selector paths rooted at its receiver that are assigned / cleared
			writes := map[string]bool{}
			total, assigns := 0, 0
			pathOf := func(inf *types.Info, root types.Object, e ast.Expr) string {
				var parts []string
				for {
					e = ast.Unparen(e)
					switch x := e.(type) {
					case *ast.SelectorExpr:
						parts = append([]string{x.Sel.Name}, parts...)
						e = x.X
						continue
					case *ast.IndexExpr:
						e = x.X
						continue
					case *ast.SliceExpr:
						e = x.X
						continue
					case *ast.Ident:
						if inf.Uses[x] == root && len(parts) > 0 {
							return strings.Join(parts, ".")
						}
					}
					return ""
				}
			}
			for _, ms := range mi.Decl.Body.List {
				total++
				switch x := ms.(type) {
				case *ast.AssignStmt:
					for _, l := range x.Lhs {
						if p := pathOf(mi.Pkg.Info, mrecv, l); p != "" {
							writes[p] = true
							assigns++
						}
					}
				case *ast.ExprStmt:
					if cl, ok := x.X.(*ast.CallExpr); ok {
						if id, ok := cl.Fun.(*ast.Ident); ok && (id.Name == "clear" || id.Name == "delete") && len(cl.Args) >= 1 {
							if p := pathOf(mi.Pkg.Info, mrecv, cl.Args[0]); p != "" {
								writes[p] = true
								assigns++
							}
						}
					}
				}
			}
			if assigns < 5 || assigns*2 < total {
				continue // not a reset method
			}
			n++
			cons := fn.id() + ":" + m.Name()
			bad := ""
			for _, before := range fn.Decl.Body.List[:si] {
				ast.Inspect(before, func(k ast.Node) bool {
					se, ok := k.(*ast.SelectorExpr)
					if !ok || bad != "" {
						return true
					}
					if p := pathOf(info, recv, se); p != "" && writes[p] {
						// an assignment target is not a read
						isTarget := false
						if as, ok := before.(*ast.AssignStmt); ok {
							for _, l := range as.Lhs {
								if ast.Unparen(l) == ast.Expr(se) {
									isTarget = true
								}
							}
						}
						if !isTarget {
							bad = p
						}
					}
					return true
				})
			}
			if bad == "" {
				r.ok(rule, cons, c.pos(call.Pos()), "")
			} else {
				r.viol(rule, cons, c.pos(call.Pos()), fn.id()+" reads "+bad+" before it calls "+m.Name()+"(), which re-initialises that field for this call: the value read is the one the previous call left behind")
			}
		}
	}
	r.inst("reset.first", n)
}

func init() {
	dumpers["resetfirst"] = func(c *Ctx, parts []string) {
		r := newReport("dump")
		c.runResetFirst(r, "reset.first", func(string) bool { return true })
		for _, o := range r.Obs {
			println(o.Verdict, o.Construct, o.Pos, o.Msg)
		}
	}
}
