package main

import (
	"go/ast"
	"go/types"
)

// promote.loopaware (C13): a block-local rewrite that reads "no store earlier
// in this block" as "the variable has its initial value" is only sound for a
// block that runs at most once. A driver that applies a per-block
// transformation to a block and then recurses into the nested blocks -
// including the body of ir.StmtLoop - must therefore tell the transformation
// that it is inside a loop: the recursive call in the StmtLoop arm passes a
// constant argument (true / a depth) that the calls in the other arms do not.
func (c *Ctx) runLoopAware(r *Report, rule string, inPkg func(string) bool) {
	n := 0
	for _, fn := range c.allFuncs() {
		if !inPkg(fn.Pkg.Rel) || fn.Obj == nil || fn.Decl.Body == nil {
			continue
		}
		info := fn.Pkg.Info
		sig := fn.Obj.Type().(*types.Signature)
		// block parameter: *[]ir.Statement or ir.Block
		var blkParam *types.Var
		for i := 0; i < sig.Params().Len(); i++ {
			t := sig.Params().At(i).Type()
			if p, ok := t.(*types.Pointer); ok {
				t = p.Elem()
			}
			if irTypeName(t) == "Block" {
				blkParam = sig.Params().At(i)
			}
			if sl, ok := t.Underlying().(*types.Slice); ok && irTypeName(sl.Elem()) == "Statement" {
				blkParam = sig.Params().At(i)
			}
		}
		if blkParam == nil {
			continue
		}
		// applies another function of the package to its own block parameter, outside any loop arm
		appliesTransform := false
		for _, st := range fn.Decl.Body.List {
			ast.Inspect(st, func(k ast.Node) bool {
				if _, isRange := k.(*ast.RangeStmt); isRange {
					return false
				}
				if _, isFor := k.(*ast.ForStmt); isFor {
					return false
				}
				call, ok := k.(*ast.CallExpr)
				if !ok {
					return true
				}
				f := calleeOf(info, call)
				if f == nil || f == fn.Obj || c.funcByObj(f) == nil || c.funcByObj(f).Pkg.Rel != fn.Pkg.Rel {
					return true
				}
				// a rewriting transformation, not a query: no results
				if f.Type().(*types.Signature).Results().Len() != 0 {
					return true
				}
				for _, a := range call.Args {
					if id, ok := ast.Unparen(a).(*ast.Ident); ok && info.ObjectOf(id) == blkParam {
						appliesTransform = true
					}
				}
				return true
			})
		}
		if !appliesTransform {
			continue
		}
		// recursion in the StmtLoop arm
		var loopCalls, otherCalls []*ast.CallExpr
		ast.Inspect(fn.Decl.Body, func(m ast.Node) bool {
			ts, ok := m.(*ast.TypeSwitchStmt)
			if !ok || !typeSwitchOnKind(ts) {
				return true
			}
			for _, cl := range ts.Body.List {
				cc := cl.(*ast.CaseClause)
				kind := ""
				for _, e := range cc.List {
					if t, ok := info.Types[e]; ok {
						kind = irTypeName(derefType(t.Type))
					}
				}
				ast.Inspect(cc, func(k ast.Node) bool {
					if call, ok := k.(*ast.CallExpr); ok {
						if f := calleeOf(info, call); f != nil && (f == fn.Obj || callsOnly(c, f, fn.Obj)) {
							if kind == "StmtLoop" {
								loopCalls = append(loopCalls, call)
							} else {
								otherCalls = append(otherCalls, call)
							}
						}
					}
					return true
				})
			}
			return true
		})
		if len(loopCalls) == 0 {
			continue
		}
		n++
		cons := fn.id() + ":StmtLoop"
		// every recursive call of the StmtLoop arm (body AND continuing) passes the constant
		aware := true
		for _, lc := range loopCalls {
			has := false
			for _, a := range lc.Args {
				if tv, ok := info.Types[a]; ok && tv.Value != nil {
					has = true
				}
			}
			if !has {
				aware = false
			}
		}
		if aware {
			r.ok(rule, cons, c.pos(loopCalls[0].Pos()), "")
		} else {
			r.viol(rule, cons, c.pos(loopCalls[0].Pos()), fn.id()+" applies a per-block transformation and recurses into a loop's body or continuing block exactly as into any other nested block: the transformation cannot know that the block runs once per iteration")
		}
	}
	r.inst(rule, n)
}

// callsOnly reports whether f is a thin wrapper whose body is a single call of target.
func callsOnly(c *Ctx, f, target *types.Func) bool {
	fi := c.funcByObj(f)
	if fi == nil || fi.Decl.Body == nil || len(fi.Decl.Body.List) != 1 {
		return false
	}
	found := false
	ast.Inspect(fi.Decl.Body.List[0], func(k ast.Node) bool {
		if call, ok := k.(*ast.CallExpr); ok && calleeOf(fi.Pkg.Info, call) == target {
			found = true
		}
		return true
	})
	return found
}

func init() {
	dumpers["loopaware"] = func(c *Ctx, parts []string) {
		r := newReport("dump")
		c.runLoopAware(r, "promote.loopaware", inPkgs("dxil/internal/passes", "ir"))
		for _, o := range r.Obs {
			println(o.Verdict, o.Construct, o.Pos)
		}
	}
}
