package main

// bounds.strict (C15, C04, C03): the number of indexable elements of a value
// (array Size, vector Size, matrix Columns - the functions recognised by
// shape.indexlen whose arms return that number itself, and wrappers that return
// their result) is a COUNT: an index i is in range iff i < count. A comparison
// of anything with a bare count variable that admits equality on the in-range
// side (i <= count, count >= i) treats the one-past-the-end index as valid: a
// constant index equal to the length is then emitted without the clamp or the
// range test of the bounds-check policy.

import (
	"go/ast"
	"go/token"
	"go/types"
)

const boundsStrictClause = "strict bounds (E37): a comparison of an index with a bare element count (the result of a function that answers Size / Size / Columns for arrays / vectors / matrices, or of a wrapper around it) never admits the index equal to the count on its in-range side"

func (c *Ctx) countFuncs() map[*types.Func]bool {
	out := map[*types.Func]bool{}
	for _, sw := range c.shapeSwitches() {
		vec, hasVec := sw.Arms["VectorType"]
		arr, hasArr := sw.Arms["ArrayType"]
		mat, hasMat := sw.Arms["MatrixType"]
		if !hasVec || !hasArr || !hasMat || !eqStrs(vec, "Size") || !eqStrs(arr, "Size") || !eqStrs(mat, "Columns") || sw.Fn.Obj == nil {
			continue
		}
		// the arms return the number itself (no arithmetic)
		plain := true
		ast.Inspect(sw.Fn.Decl.Body, func(m ast.Node) bool {
			if rs, ok := m.(*ast.ReturnStmt); ok {
				for _, e := range rs.Results {
					ast.Inspect(e, func(k ast.Node) bool {
						if be, ok := k.(*ast.BinaryExpr); ok && (be.Op == token.SUB || be.Op == token.ADD) {
							plain = false
						}
						return true
					})
				}
			}
			return true
		})
		if plain {
			out[sw.Fn.Obj] = true
		}
	}
	// wrappers: every non-zero return hands on the result of a count function (directly or through a local)
	for changed := true; changed; {
		changed = false
		for _, fn := range c.allFuncs() {
			if fn.Obj == nil || out[fn.Obj] {
				continue
			}
			sig := fn.Obj.Type().(*types.Signature)
			if sig.Results().Len() == 0 {
				continue
			}
			if b, ok := sig.Results().At(0).Type().Underlying().(*types.Basic); !ok || b.Info()&types.IsInteger == 0 {
				continue
			}
			info := fn.Pkg.Info
			fromCount := map[types.Object]bool{}
			ast.Inspect(fn.Decl.Body, func(m ast.Node) bool {
				if as, ok := m.(*ast.AssignStmt); ok && len(as.Rhs) == 1 {
					if call, ok := ast.Unparen(as.Rhs[0]).(*ast.CallExpr); ok {
						if f := calleeOf(info, call); f != nil && out[f.Origin()] {
							if id, ok := as.Lhs[0].(*ast.Ident); ok {
								fromCount[info.ObjectOf(id)] = true
							}
						}
					}
				}
				return true
			})
			good, bad := 0, 0
			ast.Inspect(fn.Decl.Body, func(m ast.Node) bool {
				if _, ok := m.(*ast.FuncLit); ok {
					return false
				}
				rs, ok := m.(*ast.ReturnStmt)
				if !ok || len(rs.Results) == 0 {
					return true
				}
				e := ast.Unparen(rs.Results[0])
				if call, ok := e.(*ast.CallExpr); ok {
					if f := calleeOf(info, call); f != nil && out[f.Origin()] {
						good++
						return true
					}
				}
				if id, ok := e.(*ast.Ident); ok && fromCount[info.Uses[id]] {
					good++
					return true
				}
				if v, ok := constInt(info, e); ok && v == 0 {
					return true // the "unknown" answer
				}
				bad++
				return true
			})
			if good > 0 && bad == 0 {
				out[fn.Obj] = true
				changed = true
			}
		}
	}
	return out
}

func (c *Ctx) runBoundsStrict(r *Report, rule string, pkgs func(string) bool) {
	n := 0
	counts := c.countFuncs()
	for _, fn := range c.allFuncs() {
		if !pkgs(fn.Pkg.Rel) {
			continue
		}
		info := fn.Pkg.Info
		countVar := map[types.Object]bool{}
		ast.Inspect(fn.Decl.Body, func(m ast.Node) bool {
			if as, ok := m.(*ast.AssignStmt); ok && len(as.Rhs) == 1 && len(as.Lhs) >= 1 {
				if call, ok := ast.Unparen(as.Rhs[0]).(*ast.CallExpr); ok {
					if f := calleeOf(info, call); f != nil && counts[f.Origin()] {
						if id, ok := as.Lhs[0].(*ast.Ident); ok && id.Name != "_" {
							countVar[info.ObjectOf(id)] = true
						}
					}
				}
			}
			return true
		})
		if len(countVar) == 0 {
			continue
		}
		ord := map[string]int{}
		isCount := func(e ast.Expr) (string, bool) {
			id, ok := ast.Unparen(e).(*ast.Ident)
			if !ok {
				return "", false
			}
			return id.Name, countVar[info.Uses[id]]
		}
		ast.Inspect(fn.Decl.Body, func(m ast.Node) bool {
			be, ok := m.(*ast.BinaryExpr)
			if !ok {
				return true
			}
			var name string
			var inclusive bool
			switch be.Op {
			case token.LSS, token.LEQ, token.GTR, token.GEQ:
			default:
				return true
			}
			if nm, ok := isCount(be.Y); ok {
				name = nm
				inclusive = be.Op == token.LEQ // i <= count
				if be.Op == token.GTR || be.Op == token.GEQ {
					// i >= count (out of range, ok) / i > count (out-of-range test that lets i == count through)
					inclusive = be.Op == token.GTR
				}
			} else if nm, ok := isCount(be.X); ok {
				name = nm
				inclusive = be.Op == token.GEQ // count >= i
				if be.Op == token.LSS || be.Op == token.LEQ {
					inclusive = be.Op == token.LSS // count < i as the out-of-range test lets i == count through
				}
			} else {
				return true
			}
			// comparisons of the count with a constant (count == 0, count > 0) are not index tests
			if _, isC := constInt(info, be.X); isC {
				return true
			}
			if _, isC := constInt(info, be.Y); isC {
				return true
			}
			n++
			key := fn.id() + ":" + name
			ord[key]++
			cons := key + "#" + itoa(ord[key])
			if inclusive {
				r.viol(rule, cons, c.pos(be.Pos()), fn.id()+": "+types.ExprString(be)+" compares an index with the element count "+name+" so that the index equal to the count passes as in range; the valid indices are 0 .. count-1")
			} else {
				r.ok(rule, cons, c.pos(be.Pos()), "")
			}
			return true
		})
	}
	r.inst("bounds.strict", n)
}

func init() {
	dumpers["boundsstrict"] = func(c *Ctx, parts []string) {
		for f := range c.countFuncs() {
			println("count func", f.FullName())
		}
		r := newReport("dump")
		c.runBoundsStrict(r, "bounds.strict", func(string) bool { return true })
		for _, o := range r.Obs {
			println(o.Verdict, o.Construct, o.Pos, o.Msg)
		}
	}
}
