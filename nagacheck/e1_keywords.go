package main

import (
	"go/ast"
	"go/constant"
	"go/token"
	"go/types"
	"sort"
	"strings"
)

// stringSetLiteral evaluates a package-level `var X = map[string]struct{}{...}`
// (or map[string]bool / []string) composite literal with constant string keys.
func (c *Ctx) stringSetLiteral(rel, name string) (map[string]bool, token.Pos, bool) {
	p := c.ByPath[modPath+"/"+rel]
	if p == nil {
		return nil, token.NoPos, false
	}
	for _, f := range p.Syntax {
		for _, d := range f.Decls {
			gd, ok := d.(*ast.GenDecl)
			if !ok || gd.Tok != token.VAR {
				continue
			}
			for _, sp := range gd.Specs {
				vs := sp.(*ast.ValueSpec)
				for i, id := range vs.Names {
					if id.Name != name || i >= len(vs.Values) {
						continue
					}
					lit, ok := ast.Unparen(vs.Values[i]).(*ast.CompositeLit)
					if !ok {
						return nil, id.Pos(), false
					}
					out := map[string]bool{}
					for _, el := range lit.Elts {
						var key ast.Expr = el
						if kv, ok := el.(*ast.KeyValueExpr); ok {
							key = kv.Key
						}
						tv, ok := p.TypesInfo.Types[key]
						if !ok || tv.Value == nil || tv.Value.Kind() != constant.String {
							return nil, id.Pos(), false // not statically evaluable
						}
						out[constant.StringVal(tv.Value)] = true
					}
					return out, id.Pos(), true
				}
			}
		}
	}
	return nil, token.NoPos, false
}

var _ = types.Universe

// reserved words of the target languages (only words the specifications reserve)

var refGLSLKeywords = strings.Fields(`
const uniform buffer shared attribute varying coherent volatile restrict readonly writeonly atomic_uint layout centroid flat smooth noperspective patch sample invariant precise
break continue do for while switch case default if else subroutine in out inout int void bool true false float double discard return
vec2 vec3 vec4 ivec2 ivec3 ivec4 bvec2 bvec3 bvec4 uint uvec2 uvec3 uvec4 dvec2 dvec3 dvec4
mat2 mat3 mat4 mat2x2 mat2x3 mat2x4 mat3x2 mat3x3 mat3x4 mat4x2 mat4x3 mat4x4 dmat2 dmat3 dmat4 dmat2x2 dmat2x3 dmat2x4 dmat3x2 dmat3x3 dmat3x4 dmat4x2 dmat4x3 dmat4x4
lowp mediump highp precision struct
sampler1D sampler1DShadow sampler1DArray sampler1DArrayShadow isampler1D isampler1DArray usampler1D usampler1DArray
sampler2D sampler2DShadow sampler2DArray sampler2DArrayShadow isampler2D isampler2DArray usampler2D usampler2DArray
sampler2DRect sampler2DRectShadow isampler2DRect usampler2DRect sampler2DMS isampler2DMS usampler2DMS sampler2DMSArray isampler2DMSArray usampler2DMSArray
sampler3D isampler3D usampler3D samplerCube samplerCubeShadow isamplerCube usamplerCube samplerCubeArray samplerCubeArrayShadow isamplerCubeArray usamplerCubeArray
samplerBuffer isamplerBuffer usamplerBuffer
image1D iimage1D uimage1D image1DArray iimage1DArray uimage1DArray image2D iimage2D uimage2D image2DArray iimage2DArray uimage2DArray
image2DRect iimage2DRect uimage2DRect image2DMS iimage2DMS uimage2DMS image2DMSArray iimage2DMSArray uimage2DMSArray image3D iimage3D uimage3D
imageCube iimageCube uimageCube imageCubeArray iimageCubeArray uimageCubeArray imageBuffer iimageBuffer uimageBuffer
common partition active asm class union enum typedef template this resource goto inline noinline public static extern external interface
long short half fixed unsigned superp input output hvec2 hvec3 hvec4 fvec2 fvec3 fvec4 filter sizeof cast namespace using sampler3DRect`)

var refCppKeywords = strings.Fields(`
alignas alignof and and_eq asm auto bitand bitor bool break case catch char char16_t char32_t class compl const constexpr const_cast continue decltype default delete do double dynamic_cast
else enum explicit export extern false float for friend goto if inline int long mutable namespace new noexcept not not_eq nullptr operator or or_eq private protected public register
reinterpret_cast return short signed sizeof static static_assert static_cast struct switch template this thread_local throw true try typedef typeid typename union unsigned using virtual void
volatile wchar_t while xor xor_eq`)

var refMSLKeywords = strings.Fields(`kernel vertex fragment device constant threadgroup thread half uint ushort uchar metal`)

var refHLSLKeywords = strings.Fields(`
AppendStructuredBuffer asm asm_fragment BlendState bool break Buffer ByteAddressBuffer case cbuffer centroid class column_major compile compile_fragment CompileShader const continue ComputeShader
ConsumeStructuredBuffer default DepthStencilState DepthStencilView discard do double DomainShader dword else export extern false float for fxgroup GeometryShader groupshared half Hullshader if in
inline inout InputPatch int interface line lineadj linear LineStream matrix min16float min10float min16int min12int min16uint namespace nointerpolation noperspective NULL out OutputPatch packoffset
pass pixelfragment PixelShader point PointStream precise RasterizerState RenderTargetView return register row_major RWBuffer RWByteAddressBuffer RWStructuredBuffer RWTexture1D RWTexture1DArray
RWTexture2D RWTexture2DArray RWTexture3D sample sampler SamplerState SamplerComparisonState shared snorm stateblock stateblock_state static string struct switch StructuredBuffer tbuffer technique
technique10 technique11 texture Texture1D Texture1DArray Texture2D Texture2DArray Texture2DMS Texture2DMSArray Texture3D TextureCube TextureCubeArray true typedef triangle triangleadj TriangleStream
uint uniform unorm unsigned vector vertexfragment VertexShader void volatile while
auto catch char const_cast delete dynamic_cast enum explicit friend goto long mutable new operator private protected public reinterpret_cast short signed sizeof static_cast template this throw try
typename union using virtual`)

type keywordTable struct {
	Backend string
	Rel     string
	Var     string
	Ref     [][]string
	// how a name missing from this table may still be escaped (alternative tables consulted by the same predicate)
	Also []struct{ Rel, Var string }
}

func (c *Ctx) runKeywordTables(r *Report, tables []keywordTable) {
	for _, t := range tables {
		set, pos, ok := c.stringSetLiteral(t.Rel, t.Var)
		if !ok {
			r.undecided("tables.keywords", t.Rel+"."+t.Var, c.pos(pos), "keyword table is not a statically evaluable string-keyed composite literal")
			continue
		}
		for _, a := range t.Also {
			if s2, _, ok := c.stringSetLiteral(a.Rel, a.Var); ok {
				for k := range s2 {
					set[k] = true
				}
			}
		}
		r.inst("tables.keywords."+t.Backend, len(set))
		var words []string
		seen := map[string]bool{}
		for _, ref := range t.Ref {
			for _, w := range ref {
				if !seen[w] {
					seen[w] = true
					words = append(words, w)
				}
			}
		}
		sort.Strings(words)
		for _, w := range words {
			construct := t.Rel + "." + t.Var + ":" + w
			if set[w] {
				r.ok("tables.keywords", construct, c.pos(pos), "")
			} else {
				r.viol("tables.keywords", construct, c.pos(pos), "reserved word "+w+" of the "+t.Backend+" target language is missing from "+t.Rel+"."+t.Var+": a WGSL identifier spelled "+w+" is emitted unescaped")
			}
		}
	}
}

var keywordTables = []keywordTable{
	{Backend: "GLSL", Rel: "glsl/internal/codegen", Var: "glslKeywords", Ref: [][]string{refGLSLKeywords}},
	{Backend: "MSL", Rel: "msl/internal/codegen", Var: "reservedWords", Ref: [][]string{refCppKeywords, refMSLKeywords}},
	{Backend: "HLSL", Rel: "internal/backend", Var: "HLSLReservedKeywords", Ref: [][]string{refHLSLKeywords}, Also: []struct{ Rel, Var string }{{"internal/backend", "HLSLCaseInsensitiveKeywords"}}},
}

func init() {
	dumpers["keywords"] = func(c *Ctx, parts []string) {
		r := newReport("dump")
		c.runKeywordTables(r, keywordTables)
		for _, o := range r.Obs {
			if o.Verdict != OK {
				println(o.Verdict, o.Construct)
			}
		}
		for k, v := range r.Instances {
			println(k, v)
		}
	}
}

// helper reservation: every identifier the backend itself defines in its
// output (string-literal tokens _naga_* / naga_*) is reserved in that
// backend's namer: it is in the keyword table, in a []string literal of the
// function that constructs the namer, or covered by a reserved prefix.

type helperSpec struct {
	Backend   string
	Rel       string
	Tables    []struct{ Rel, Var string }
	Exception map[string]string
}

func (c *Ctx) runHelperReservation(r *Report, hs []helperSpec) {
	for _, h := range hs {
		p := c.ByPath[modPath+"/"+h.Rel]
		if p == nil {
			r.undecided("names.helpers", h.Rel, "", "package not loaded")
			continue
		}
		reserved := map[string]bool{}
		for _, t := range h.Tables {
			if s, _, ok := c.stringSetLiteral(t.Rel, t.Var); ok {
				for k := range s {
					reserved[k] = true
				}
			}
		}
		// []string literals with constant elements (reserved helper lists / prefixes), anywhere in the package
		var prefixes []string
		for _, f := range p.Syntax {
			ast.Inspect(f, func(n ast.Node) bool {
				lit, ok := n.(*ast.CompositeLit)
				if !ok {
					return true
				}
				tv, ok := p.TypesInfo.Types[lit]
				if !ok {
					return true
				}
				sl, ok := types.Unalias(tv.Type).Underlying().(*types.Slice)
				if !ok {
					return true
				}
				if b, ok := types.Unalias(sl.Elem()).Underlying().(*types.Basic); !ok || b.Kind() != types.String {
					return true
				}
				for _, el := range lit.Elts {
					if ev, ok := p.TypesInfo.Types[el]; ok && ev.Value != nil && ev.Value.Kind() == constant.String {
						s := constant.StringVal(ev.Value)
						reserved[s] = true
						if strings.HasSuffix(s, "_") {
							prefixes = append(prefixes, s)
						}
					}
				}
				return true
			})
		}
		// emitted tokens: in string literals inside function bodies
		emitted := map[string]token.Pos{}
		for _, f := range p.Syntax {
			for _, d := range f.Decls {
				fd, ok := d.(*ast.FuncDecl)
				if !ok || fd.Body == nil {
					continue
				}
				ast.Inspect(fd.Body, func(n ast.Node) bool {
					var s string
					var pos token.Pos
					switch x := n.(type) {
					case *ast.BasicLit:
						if x.Kind != token.STRING {
							return true
						}
						if tv, ok := p.TypesInfo.Types[x]; ok && tv.Value != nil {
							s, pos = constant.StringVal(tv.Value), x.Pos()
						}
					case *ast.Ident:
						if k, ok := p.TypesInfo.Uses[x].(*types.Const); ok && k.Val().Kind() == constant.String {
							s, pos = constant.StringVal(k.Val()), x.Pos()
						}
					}
					for _, tok := range helperTokens(s) {
						if _, ok := emitted[tok]; !ok {
							emitted[tok] = pos
						}
					}
					return true
				})
			}
		}
		var toks []string
		for t := range emitted {
			toks = append(toks, t)
		}
		sort.Strings(toks)
		r.inst("names.helpers."+h.Backend, len(toks))
		for _, t := range toks {
			if strings.HasSuffix(t, "#digit") {
				r.ok("names.helpers", h.Rel+":"+strings.TrimSuffix(t, "#digit")+"<n>", c.pos(emitted[t]), "computed name always ends in a digit; every user name ending in a digit is suffixed with '_' by the namer, so it cannot be spelled by a WGSL entity")
				continue
			}
			construct := h.Rel + ":" + t
			ok := reserved[t]
			if !ok {
				for _, pre := range prefixes {
					if strings.HasPrefix(t, pre) {
						ok = true
					}
				}
			}
			switch {
			case ok:
				r.ok("names.helpers", construct, c.pos(emitted[t]), "")
			case h.Exception[t] != "":
				r.exc("names.helpers", construct, c.pos(emitted[t]), h.Exception[t])
			default:
				r.viol("names.helpers", construct, c.pos(emitted[t]), "the "+h.Backend+" backend emits the identifier "+t+" in its own output but its namer does not reserve it: a WGSL entity with that name clashes with the generated helper")
			}
		}
	}
}

// helperTokens extracts identifier tokens starting with naga_ / _naga_ /
// __naga_ from a string literal. A token that continues with format verbs and
// ends in %d (a computed name that always ends in a digit) is returned with a
// trailing "#digit" marker.
func helperTokens(s string) []string {
	var out []string
	i := 0
	isIdent := func(b byte) bool {
		return b == '_' || (b >= 'a' && b <= 'z') || (b >= 'A' && b <= 'Z') || (b >= '0' && b <= '9')
	}
	for i < len(s) {
		if !isIdent(s[i]) {
			i++
			continue
		}
		j := i
		for j < len(s) && isIdent(s[j]) {
			j++
		}
		tok := s[i:j]
		t := strings.TrimLeft(tok, "_")
		if strings.HasPrefix(t, "naga_") && len(tok)-len(t) <= 2 {
			// computed continuation: %s / %d / %v verbs and identifier characters
			k := j
			lastVerb := byte(0)
			for k+1 < len(s) && s[k] == '%' && (s[k+1] == 'd' || s[k+1] == 's' || s[k+1] == 'v') {
				lastVerb = s[k+1]
				k += 2
				for k < len(s) && isIdent(s[k]) {
					lastVerb = 0
					k++
				}
			}
			if k > j && lastVerb == 'd' {
				tok += "#digit"
			}
			out = append(out, tok)
			j = k
		}
		i = j
	}
	return out
}

var helperSpecs = []helperSpec{
	{Backend: "HLSL", Rel: "hlsl/internal/codegen", Tables: []struct{ Rel, Var string }{{"internal/backend", "HLSLReservedKeywords"}}},
	{Backend: "MSL", Rel: "msl/internal/codegen", Tables: []struct{ Rel, Var string }{{"msl/internal/codegen", "reservedWords"}}},
	{Backend: "GLSL", Rel: "glsl/internal/codegen", Tables: []struct{ Rel, Var string }{{"glsl/internal/codegen", "glslKeywords"}}},
}

func init() {
	dumpers["helpers"] = func(c *Ctx, parts []string) {
		r := newReport("dump")
		c.runHelperReservation(r, helperSpecs)
		for _, o := range r.Obs {
			println(o.Verdict, o.Construct, o.Pos)
		}
	}
}
