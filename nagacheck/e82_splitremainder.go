package main

import (
	"go/ast"
	"go/token"
	"go/types"
	"strconv"
)

// lex.splitremainder (C19, C08): WGSL closes a template list with the FIRST '>'
// of whatever token the lexer made of the following characters ('>>', '>=',
// '>>='); the parser splits that token, consumes one '>' and leaves the rest.
// Where the parser reacts to a token kind X by calling a helper that rewrites
// the current token (a composite literal with Kind K and a Lexeme literal L),
// the pieces must add up: spelling(X) = ">" + L and spelling(K) = L, with the
// spellings taken from the package's own token-name table. A helper that
// leaves the wrong remainder makes `vec2<f32>>=` mean something else than
// `vec2<f32>> =` (whitespace between tokens would change acceptance).
func (c *Ctx) runSplitRemainder(r *Report, rule string, pkg string) {
	// spelling table: a package-level map[TokenKind]string literal
	spelling := map[string]string{}
	p := c.pkgT(pkg)
	if p == nil {
		r.undecided(rule, pkg+":token-names", "", "package not loaded")
		return
	}
	for _, f := range p.Files {
		ast.Inspect(f, func(m ast.Node) bool {
			cl, ok := m.(*ast.CompositeLit)
			if !ok {
				return true
			}
			tv, ok := p.Info.Types[cl]
			if !ok {
				return true
			}
			mt, ok := tv.Type.Underlying().(*types.Map)
			if !ok {
				return true
			}
			if b, ok := mt.Elem().Underlying().(*types.Basic); !ok || b.Kind() != types.String {
				return true
			}
			if n := namedOf(mt.Key()); n == nil || n.Obj().Name() != "TokenKind" {
				return true
			}
			for _, e := range cl.Elts {
				kv, ok := e.(*ast.KeyValueExpr)
				if !ok {
					continue
				}
				k, ok1 := kv.Key.(*ast.Ident)
				v, ok2 := kv.Value.(*ast.BasicLit)
				if ok1 && ok2 && v.Kind == token.STRING {
					if s, err := strconv.Unquote(v.Value); err == nil {
						spelling[k.Name] = s
					}
				}
			}
			return true
		})
	}
	r.inst("lex.tokenSpellings", len(spelling))
	// split helpers: methods whose body assigns a Token literal with constant Kind and Lexeme to the current token
	type helper struct{ kind, lexeme string }
	helpers := map[*types.Func]helper{}
	for _, fn := range c.allFuncs() {
		if fn.Pkg.Rel != pkg || fn.Obj == nil || fn.Decl.Body == nil {
			continue
		}
		ast.Inspect(fn.Decl.Body, func(m ast.Node) bool {
			as, ok := m.(*ast.AssignStmt)
			if !ok || len(as.Lhs) != 1 || len(as.Rhs) != 1 {
				return true
			}
			if _, isIdx := as.Lhs[0].(*ast.IndexExpr); !isIdx {
				return true
			}
			cl, ok := as.Rhs[0].(*ast.CompositeLit)
			if !ok {
				return true
			}
			var h helper
			for _, e := range cl.Elts {
				if kv, ok := e.(*ast.KeyValueExpr); ok {
					if k, ok := kv.Key.(*ast.Ident); ok {
						switch k.Name {
						case "Kind":
							if id, ok := kv.Value.(*ast.Ident); ok {
								h.kind = id.Name
							}
						case "Lexeme":
							if bl, ok := kv.Value.(*ast.BasicLit); ok {
								h.lexeme, _ = strconv.Unquote(bl.Value)
							}
						}
					}
				}
			}
			if h.kind != "" && h.lexeme != "" {
				helpers[fn.Obj] = h
			}
			return true
		})
	}
	r.inst("lex.splitHelpers", len(helpers))
	n := 0
	check := func(fn *funcInfo, kinds []string, call *ast.CallExpr) {
		f := calleeOf(fn.Pkg.Info, call)
		h, ok := helpers[f]
		if !ok {
			return
		}
		for _, x := range kinds {
			n++
			cons := fn.id() + ":" + x + "->" + f.Name()
			switch {
			case spelling[x] == "" || spelling[h.kind] == "":
				r.undecided(rule, cons, c.pos(call.Pos()), "no spelling for "+x+" / "+h.kind+" in the token-name table")
			case spelling[x] == ">"+h.lexeme && spelling[h.kind] == h.lexeme:
				r.ok(rule, cons, c.pos(call.Pos()), "")
			default:
				r.viol(rule, cons, c.pos(call.Pos()), fn.id()+" answers the token "+strconv.Quote(spelling[x])+" with "+f.Name()+", which consumes one '>' and leaves "+strconv.Quote(h.lexeme)+" (kind "+h.kind+" = "+strconv.Quote(spelling[h.kind])+"): the pieces do not add up to the token")
			}
		}
	}
	for _, fn := range c.allFuncs() {
		if fn.Pkg.Rel != pkg || fn.Obj == nil || fn.Decl.Body == nil {
			continue
		}
		info := fn.Pkg.Info
		kindsOf := func(e ast.Node) []string {
			var out []string
			ast.Inspect(e, func(k ast.Node) bool {
				if id, ok := k.(*ast.Ident); ok {
					if cst, ok := info.Uses[id].(*types.Const); ok {
						if nm := namedOf(cst.Type()); nm != nil && nm.Obj().Name() == "TokenKind" {
							out = append(out, cst.Name())
						}
					}
				}
				return true
			})
			return out
		}
		ast.Inspect(fn.Decl.Body, func(m ast.Node) bool {
			switch x := m.(type) {
			case *ast.IfStmt:
				// the kinds the current token is tested for: arguments of calls in the condition
				var ks []string
				ast.Inspect(x.Cond, func(k ast.Node) bool {
					if call, ok := k.(*ast.CallExpr); ok {
						for _, a := range call.Args {
							ks = append(ks, kindsOf(a)...)
						}
					}
					return true
				})
				if len(ks) == 0 {
					return true
				}
				for _, st := range x.Body.List {
					if es, ok := st.(*ast.ExprStmt); ok {
						if call, ok := es.X.(*ast.CallExpr); ok {
							check(fn, ks, call)
						}
					}
				}
			case *ast.CaseClause:
				var ks []string
				for _, e := range x.List {
					ks = append(ks, kindsOf(e)...)
				}
				if len(ks) == 0 {
					return true
				}
				for _, st := range x.Body {
					if es, ok := st.(*ast.ExprStmt); ok {
						if call, ok := es.X.(*ast.CallExpr); ok {
							check(fn, ks, call)
						}
					}
				}
			}
			return true
		})
	}
	r.inst(rule, n)
}

func init() {
	dumpers["splitremainder"] = func(c *Ctx, parts []string) {
		r := newReport("dump")
		c.runSplitRemainder(r, "lex.splitremainder", "wgsl/internal/parser")
		for _, o := range r.Obs {
			println(o.Verdict, o.Construct, o.Pos, o.Msg)
		}
	}
}
