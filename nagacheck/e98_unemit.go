package main

import (
	"go/ast"
	"go/types"
)

// scope.unemitbeforeuse (C04): a text backend whose block writer drops the
// names it baked for the block's expressions when the block ends (a function
// that writes the statements of its block parameter and then deletes, from a
// map field of the writer, the handles of the block's Emit ranges). The
// break-if condition of a loop belongs to the continuing block: it is computed
// from values that block captured. A loop writer that hands `.Continuing` to
// the name-dropping block writer and writes `.BreakIf` afterwards expands the
// condition again from its operands - after the continuing block's
// assignments (`let c = i >= 4u; i = i + 1u; break if c` tests the new i).
func (c *Ctx) runUnemitBeforeUse(r *Report, rule, rel string) {
	// name-dropping block writers of the package
	droppers := map[*types.Func]bool{}
	for _, fn := range c.allFuncs() {
		if fn.Pkg.Rel != rel || fn.Obj == nil || fn.Decl.Body == nil {
			continue
		}
		sig := fn.Obj.Type().(*types.Signature)
		var blockParam types.Object
		for i := 0; i < sig.Params().Len(); i++ {
			if irTypeName(sig.Params().At(i).Type()) == "Block" {
				blockParam = sig.Params().At(i)
			}
		}
		if blockParam == nil {
			continue
		}
		info := fn.Pkg.Info
		deletes := false
		ast.Inspect(fn.Decl.Body, func(m ast.Node) bool {
			rs, ok := m.(*ast.RangeStmt)
			if !ok {
				return true
			}
			if id, ok := ast.Unparen(rs.X).(*ast.Ident); !ok || info.ObjectOf(id) != blockParam {
				return true
			}
			ast.Inspect(rs.Body, func(k ast.Node) bool {
				call, ok := k.(*ast.CallExpr)
				if !ok || len(call.Args) != 2 {
					return true
				}
				if id, ok := call.Fun.(*ast.Ident); ok && id.Name == "delete" {
					if sel, ok := ast.Unparen(call.Args[0]).(*ast.SelectorExpr); ok {
						if v, ok := info.ObjectOf(sel.Sel).(*types.Var); ok && v.IsField() {
							deletes = true
						}
					}
				}
				return true
			})
			return true
		})
		if deletes {
			droppers[fn.Obj] = true
		}
	}
	r.inst(rule+".droppers", len(droppers))
	n := 0
	for _, fn := range c.allFuncs() {
		if fn.Pkg.Rel != rel || fn.Decl.Body == nil {
			continue
		}
		info := fn.Pkg.Info
		isField := func(e ast.Expr, name string) bool {
			found := false
			ast.Inspect(e, func(m ast.Node) bool {
				if sel, ok := m.(*ast.SelectorExpr); ok && sel.Sel.Name == name {
					if v, ok := info.ObjectOf(sel.Sel).(*types.Var); ok && v.IsField() {
						found = true
					}
				}
				return true
			})
			return found
		}
		var contCall *ast.CallExpr
		var breakIfUse *ast.CallExpr
		ast.Inspect(fn.Decl.Body, func(m ast.Node) bool {
			call, ok := m.(*ast.CallExpr)
			if !ok {
				return true
			}
			callee := calleeOf(info, call)
			if callee == nil {
				return true
			}
			for _, a := range call.Args {
				if isField(a, "Continuing") && contCall == nil && c.funcByObj(callee) != nil {
					if droppers[callee] {
						contCall = call
					} else {
						contCall = nil
					}
				}
				if isField(a, "BreakIf") && c.funcByObj(callee) != nil {
					if _, isStar := ast.Unparen(a).(*ast.StarExpr); isStar && breakIfUse == nil {
						breakIfUse = call
					}
				}
			}
			return true
		})
		if breakIfUse == nil {
			continue
		}
		// a loop writer that writes the break-if condition
		wroteCont := false
		ast.Inspect(fn.Decl.Body, func(m ast.Node) bool {
			if call, ok := m.(*ast.CallExpr); ok {
				for _, a := range call.Args {
					if isField(a, "Continuing") && calleeOf(info, call) != nil {
						wroteCont = true
					}
				}
			}
			return true
		})
		if !wroteCont {
			continue
		}
		n++
		cons := fn.id() + ":break-if"
		if contCall != nil && contCall.Pos() < breakIfUse.Pos() {
			r.viol(rule, cons, c.pos(breakIfUse.Pos()), fn.id()+" writes the continuing block through a block writer that drops the block's baked names at its end and writes the break-if condition afterwards: the condition is expanded again from its operands and re-reads variables the continuing block has assigned")
		} else {
			r.ok(rule, cons, c.pos(breakIfUse.Pos()), "")
		}
	}
	r.inst(rule, n)
}

func init() {
	dumpers["unemit"] = func(c *Ctx, parts []string) {
		for _, rel := range []string{"msl/internal/codegen", "glsl/internal/codegen", "hlsl/internal/codegen"} {
			r := newReport("dump")
			c.runUnemitBeforeUse(r, "scope.unemitbeforeuse", rel)
			for _, o := range r.Obs {
				println(rel, o.Verdict, o.Construct, o.Pos)
			}
		}
	}
}
