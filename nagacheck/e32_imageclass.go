package main

// image.depthlike (C01-C05, C02): a depth texture is a sampled texture whose
// texels are depths: like ImageClassSampled it may be multisampled
// (texture_depth_multisampled_2d), arrayed, and has mip levels. Wherever code
// distinguishes image classes (a switch over an ir.ImageClass value, or a
// comparison with ImageClassSampled / ImageClassDepth) and the treatment of
// ImageClassSampled depends on the image's Multisampled flag, the treatment of
// ImageClassDepth must depend on it too (same arm, or an arm that reads the
// flag): the instructions and methods that are illegal on multisampled images
// (OpImageQuerySizeLod, Lod operands, get_num_mip_levels ...) are illegal for
// multisampled depth images as well.

import (
	"go/ast"
	"go/token"
	"go/types"
	"sort"
	"strings"
)

const depthLikeClause = "depth textures (E32): wherever code singles out ImageClassSampled - an arm of a switch over the image class whose treatment depends on the Multisampled flag, or a comparison with ImageClassSampled that does not guard a read of SampledKind - ImageClassDepth gets the same treatment (same arm / an arm that reads the flag / an accompanying comparison with ImageClassDepth): depth textures are sampled textures with mip levels, layers and possibly multisampling"

type classSwitch struct {
	fn   *funcInfo
	node *ast.SwitchStmt
	arms map[string]*ast.CaseClause // class constant -> clause
	def  *ast.CaseClause
}

func (c *Ctx) imageClassSwitches(pkgs func(string) bool) []classSwitch {
	var out []classSwitch
	for _, fn := range c.allFuncs() {
		if !pkgs(fn.Pkg.Rel) {
			continue
		}
		info := fn.Pkg.Info
		ast.Inspect(fn.Decl.Body, func(m ast.Node) bool {
			sw, ok := m.(*ast.SwitchStmt)
			if !ok || sw.Tag == nil {
				return true
			}
			if tv, ok := info.Types[sw.Tag]; !ok || irTypeName(tv.Type) != "ImageClass" {
				return true
			}
			cs := classSwitch{fn: fn, node: sw, arms: map[string]*ast.CaseClause{}}
			for _, cl := range sw.Body.List {
				cc := cl.(*ast.CaseClause)
				if cc.List == nil {
					cs.def = cc
				}
				for _, l := range cc.List {
					if nm := irConstName(info, l); strings.HasPrefix(nm, "ImageClass") {
						cs.arms[nm] = cc
					}
				}
			}
			out = append(out, cs)
			return true
		})
	}
	return out
}

// fieldsRead: names of fields of ir.ImageType read inside n.
func imageFieldsRead(info *types.Info, n ast.Node) map[string]bool {
	out := map[string]bool{}
	if n == nil {
		return out
	}
	ast.Inspect(n, func(m ast.Node) bool {
		if se, ok := m.(*ast.SelectorExpr); ok {
			if tv, ok := info.Types[se.X]; ok && irTypeName(tv.Type) == "ImageType" {
				out[se.Sel.Name] = true
			}
		}
		return true
	})
	return out
}

func (c *Ctx) runDepthLike(r *Report, rule string, pkgs func(string) bool) {
	n := 0
	ord := map[string]int{}
	for _, cs := range c.imageClassSwitches(pkgs) {
		sampled := cs.arms["ImageClassSampled"]
		if sampled == nil {
			continue
		}
		info := cs.fn.Pkg.Info
		sf := imageFieldsRead(info, sampled)
		if !sf["Multisampled"] {
			continue
		}
		n++
		key := cs.fn.id() + ":switch(ImageClass)"
		ord[key]++
		cons := key + "#" + itoa(ord[key])
		depth := cs.arms["ImageClassDepth"]
		if depth == nil {
			depth = cs.def
		}
		if depth == sampled {
			r.ok(rule, cons, c.pos(cs.node.Pos()), "same arm")
			continue
		}
		if depth != nil && imageFieldsRead(info, depth)["Multisampled"] {
			r.ok(rule, cons, c.pos(cs.node.Pos()), "")
			continue
		}
		r.viol(rule, cons, c.pos(cs.node.Pos()), cs.fn.id()+": the treatment of ImageClassSampled in this switch depends on the image's Multisampled flag, the treatment of ImageClassDepth does not: a multisampled depth texture (texture_depth_multisampled_2d) is handled like a single-sampled one")
	}
	// comparison form: X.Class == ImageClassSampled / != ImageClassSampled
	for _, fn := range c.allFuncs() {
		if !pkgs(fn.Pkg.Rel) {
			continue
		}
		info := fn.Pkg.Info
		// boolean expressions (maximal && / || trees) containing a comparison of an ImageClass value with ImageClassSampled
		var roots []ast.Expr
		seenRoot := map[ast.Expr]bool{}
		var stack []ast.Node
		ast.Inspect(fn.Decl.Body, func(m ast.Node) bool {
			if m == nil {
				stack = stack[:len(stack)-1]
				return true
			}
			stack = append(stack, m)
			be, ok := m.(*ast.BinaryExpr)
			if !ok || (be.Op != token.EQL && be.Op != token.NEQ) || irConstName(info, be.Y) != "ImageClassSampled" {
				return true
			}
			// climb to the maximal boolean expression
			var root ast.Expr = be
			for i := len(stack) - 2; i >= 0; i-- {
				switch p := stack[i].(type) {
				case *ast.ParenExpr:
					root = p
					continue
				case *ast.UnaryExpr:
					if p.Op == token.NOT {
						root = p
						continue
					}
				case *ast.BinaryExpr:
					if p.Op == token.LAND || p.Op == token.LOR {
						root = p
						continue
					}
				}
				break
			}
			if !seenRoot[root] {
				seenRoot[root] = true
				roots = append(roots, root)
			}
			return true
		})
		for _, root := range roots {
			// does the expression also compare the same operand with ImageClassDepth?
			var subj string
			mentionsDepth := false
			ast.Inspect(root, func(m ast.Node) bool {
				if be, ok := m.(*ast.BinaryExpr); ok && (be.Op == token.EQL || be.Op == token.NEQ) {
					switch irConstName(info, be.Y) {
					case "ImageClassSampled":
						subj = types.ExprString(be.X)
					case "ImageClassDepth":
						mentionsDepth = true
					}
				}
				return true
			})
			// scope: the statement the expression belongs to (an if with its body, or the whole function for an early return)
			var scope ast.Node = fn.Decl.Body
			readsKind := false
			ast.Inspect(scope, func(m ast.Node) bool {
				if ifs, ok := m.(*ast.IfStmt); ok && ifs.Cond != nil && ifs.Cond.Pos() <= root.Pos() && root.End() <= ifs.Cond.End() {
					// early-return guard (`!= Sampled { return }`): the code after it is the scope -> whole function; otherwise the body
					if be, ok := ast.Unparen(ifs.Cond).(*ast.BinaryExpr); !(ok && containsNEQSampled(info, be)) {
						scope = ifs
					}
				}
				return true
			})
			ast.Inspect(scope, func(m ast.Node) bool {
				if se, ok := m.(*ast.SelectorExpr); ok && se.Sel.Name == "SampledKind" {
					readsKind = true
				}
				return !readsKind
			})
			n++
			key := fn.id() + ":" + noSpace(subj) + "~ImageClassSampled"
			ord[key]++
			cons := key + "#" + itoa(ord[key])
			switch {
			case mentionsDepth:
				r.ok(rule, cons, c.pos(root.Pos()), "")
			case readsKind:
				r.triv(rule, cons, c.pos(root.Pos()), "guards a read of SampledKind, which only ImageClassSampled has")
			default:
				r.viol(rule, cons, c.pos(root.Pos()), fn.id()+": "+types.ExprString(root)+" singles out ImageClassSampled where nothing specific to sampled-kind textures is done (SampledKind is not read): depth textures, which are sampled textures with mip levels, array layers and possibly multisampling too, take the other path")
			}
		}
	}
	r.inst("image.depthlike", n)
}

func containsNEQSampled(info *types.Info, e ast.Expr) bool {
	hit := false
	ast.Inspect(e, func(m ast.Node) bool {
		if be, ok := m.(*ast.BinaryExpr); ok && be.Op == token.NEQ && irConstName(info, be.Y) == "ImageClassSampled" {
			hit = true
		}
		return !hit
	})
	return hit
}

func init() {
	dumpers["imageclass"] = func(c *Ctx, parts []string) {
		for _, cs := range c.imageClassSwitches(func(string) bool { return true }) {
			info := cs.fn.Pkg.Info
			var arms []string
			for k, cl := range cs.arms {
				var fs []string
				for f := range imageFieldsRead(info, cl) {
					fs = append(fs, f)
				}
				sort.Strings(fs)
				arms = append(arms, k+"{"+strings.Join(fs, ",")+"}")
			}
			sort.Strings(arms)
			println(cs.fn.id(), c.pos(cs.node.Pos()), strings.Join(arms, " "), "default:", cs.def != nil)
		}
		r := newReport("dump")
		c.runDepthLike(r, "image.depthlike", func(string) bool { return true })
		for _, o := range r.Obs {
			println(o.Verdict, o.Construct, o.Pos, o.Msg)
		}
	}
}
