package main

// E1 tables: literal / constant tables against an independent reference.

import (
	"fmt"
	"go/constant"
	"go/types"
	"sort"
	"strings"
)

type constEntry struct {
	Name  string
	Type  string
	Value int64
	Obj   *types.Const
}

// typedConsts lists the package-level integer constants of named types of a package.
func (c *Ctx) typedConsts(rel string) []constEntry {
	p := c.pkg(rel)
	var out []constEntry
	scope := p.Types.Scope()
	for _, n := range scope.Names() {
		k, ok := scope.Lookup(n).(*types.Const)
		if !ok {
			continue
		}
		nt, ok := k.Type().(*types.Named)
		if !ok || nt.Obj().Pkg() != p.Types {
			continue
		}
		if k.Val().Kind() != constant.Int {
			continue
		}
		v, exact := constant.Int64Val(k.Val())
		if !exact {
			continue
		}
		out = append(out, constEntry{Name: n, Type: nt.Obj().Name(), Value: v, Obj: k})
	}
	sort.Slice(out, func(i, j int) bool { return out[i].Type+out[i].Name < out[j].Type+out[j].Name })
	return out
}

func normName(s string) string {
	s = strings.ToLower(s)
	s = strings.ReplaceAll(s, "_", "")
	for _, suf := range []string{"khr", "ext", "nv"} {
		s = strings.TrimSuffix(s, suf)
	}
	return s
}

// runEnumTable compares the constants of one named type with a reference
// (normalised name -> value). prefixes are stripped from the repo's names.
func (c *Ctx) runEnumTable(r *Report, rule, rel, typeName string, prefixes []string, ref map[string]int64, aliases map[string]string) {
	refN := map[string]int64{}
	for k, v := range ref {
		refN[normName(k)] = v
	}
	n, unknown := 0, 0
	var unk []string
	for _, e := range c.typedConsts(rel) {
		if e.Type != typeName {
			continue
		}
		n++
		name := e.Name
		if a, ok := aliases[name]; ok {
			name = a
		}
		for _, p := range prefixes {
			if strings.HasPrefix(name, p) && len(name) > len(p) {
				name = name[len(p):]
				break
			}
		}
		construct := rel + "." + e.Name
		want, ok := refN[normName(name)]
		if !ok {
			unknown++
			unk = append(unk, e.Name)
			r.triv(rule, construct, "", "not in the reference table (not judged)")
			continue
		}
		if want == e.Value {
			r.ok(rule, construct, c.pos(e.Obj.Pos()), "")
		} else {
			r.viol(rule, construct, c.pos(e.Obj.Pos()), fmt.Sprintf("%s.%s = %d but the specification assigns %d", rel, e.Name, e.Value, want))
		}
	}
	r.inst("tables."+typeName, n)
	if unknown > 0 {
		r.Extra["tables."+typeName+".not_in_reference"] = unk
	}
}

// runPrefixTable compares untyped/basic constants whose name carries a prefix
// (e.g. GLSLstd450Round) with a reference.
func (c *Ctx) runPrefixTable(r *Report, rule, rel, prefix string, ref map[string]int64) {
	p := c.pkg(rel)
	refN := map[string]int64{}
	for k, v := range ref {
		refN[normName(k)] = v
	}
	scope := p.Types.Scope()
	n := 0
	for _, name := range scope.Names() {
		k, ok := scope.Lookup(name).(*types.Const)
		if !ok || !strings.HasPrefix(name, prefix) || k.Val().Kind() != constant.Int {
			continue
		}
		v, _ := constant.Int64Val(k.Val())
		n++
		construct := rel + "." + name
		want, ok := refN[normName(strings.TrimPrefix(name, prefix))]
		if !ok {
			r.triv(rule, construct, "", "not in the reference table (not judged)")
			continue
		}
		if want == v {
			r.ok(rule, construct, c.pos(k.Pos()), "")
		} else {
			r.viol(rule, construct, c.pos(k.Pos()), fmt.Sprintf("%s.%s = %d but the specification assigns %d", rel, name, v, want))
		}
	}
	r.inst("tables."+prefix, n)
}

func init() {
	dumpers["consts"] = func(c *Ctx, parts []string) {
		cur := ""
		for _, e := range c.typedConsts(parts[1]) {
			if e.Type != cur {
				fmt.Printf("\n== %s\n", e.Type)
				cur = e.Type
			}
			fmt.Printf("%s=%d ", e.Name, e.Value)
		}
		fmt.Println()
	}
}

// usedConsts: constants referenced by library code (outside their own declaration).
func (c *Ctx) usedConsts() map[*types.Const]bool {
	if v, ok := c.cache["usedConsts"]; ok {
		return v.(map[*types.Const]bool)
	}
	out := map[*types.Const]bool{}
	for _, p := range c.Roots {
		for id, o := range p.TypesInfo.Uses {
			_ = id
			if k, ok := o.(*types.Const); ok {
				out[k] = true
			}
		}
	}
	c.cache["usedConsts"] = out
	return out
}

// runNamedConstTable compares the package-level integer constants named in ref
// (of the given Go type, or untyped / basic when typeName is "") with the reference values.
func (c *Ctx) runNamedConstTable(r *Report, rule, rel, typeName string, ref map[string]int64) int {
	p := c.pkg(rel)
	scope := p.Types.Scope()
	used := c.usedConsts()
	n := 0
	var names []string
	for nm := range ref {
		names = append(names, nm)
	}
	sort.Strings(names)
	for _, nm := range names {
		k, ok := scope.Lookup(nm).(*types.Const)
		if !ok || k.Val().Kind() != constant.Int {
			continue
		}
		if typeName != "" && namedName(k.Type()) != typeName {
			continue
		}
		v, _ := constant.Int64Val(k.Val())
		construct := rel + "." + nm
		if !used[k] {
			r.triv(rule, construct, c.pos(k.Pos()), "never referenced by library code: its value cannot reach the output (not judged)")
			continue
		}
		n++
		if v == ref[nm] {
			r.ok(rule, construct, c.pos(k.Pos()), "")
		} else {
			r.viol(rule, construct, c.pos(k.Pos()), fmt.Sprintf("%s.%s = %d but the specification assigns %d", rel, nm, v, ref[nm]))
		}
	}
	return n
}

func (c *Ctx) runDXILTables(r *Report, rule string) {
	n := 0
	for _, t := range dxilTables {
		n += c.runNamedConstTable(r, rule, t.Pkg, t.Type, t.Ref)
	}
	r.inst("tables.dxil", n)
}
