package main

// E3 syntax-tree walkers (parser AST).
//
// The WGSL parser's tree is a family of closed sums (Expr, Stmt, Type, Decl:
// interfaces with an unexported marker method). A *walker* is a function with a
// type switch over a value of one of these sums that consumes the child nodes of
// its arms (dependency ordering, scanners of the lowerer, the lowerer's own
// statement / expression dispatch). For every walker:
//
//   astwalk.child    in the arm for variant V every child field of V (a field
//                    holding a node, a slice of nodes, or an auxiliary struct
//                    that holds nodes) is used - not merely nil-checked or
//                    narrowed by a type assertion to one variant of its sum
//                    (a child that is never handed on is invisible to the
//                    walker: its references / errors are lost);
//   astwalk.variant  a walker without a default arm has an arm for every variant
//                    of the sum that has child fields.
//
// A function qualifies as a walker when it has at least 3 arms for variants with
// children and uses every child in at least 3/4 of them.

import (
	"go/ast"
	"go/token"
	"go/types"
	"sort"
	"strings"
)

const parserRel = "wgsl/internal/parser"

type astChildField struct {
	Name string
	Sum  bool     // field type is a sum interface (can be narrowed)
	Aux  []string // child field names of the auxiliary struct, when the field holds aux structs
}

type astShape struct {
	sums     map[string]*sumType
	variant  map[string][]string // variant name -> sums it belongs to
	children map[string][]astChildField
}

func (c *Ctx) astShape() *astShape {
	if v, ok := c.cache["astShape"]; ok {
		return v.(*astShape)
	}
	sh := &astShape{sums: map[string]*sumType{}, variant: map[string][]string{}, children: map[string][]astChildField{}}
	for n, s := range c.sumTypes(parserRel) {
		if n == "Node" {
			continue
		}
		sh.sums[n] = s
		for _, v := range s.Variants {
			sh.variant[v.Obj().Name()] = append(sh.variant[v.Obj().Name()], n)
		}
	}
	pkg := c.pkg(parserRel).Types
	var isChild func(t types.Type, depth int) (child, sum bool, aux []string)
	structChildren := func(st *types.Struct, depth int) []astChildField {
		var out []astChildField
		for i := 0; i < st.NumFields(); i++ {
			f := st.Field(i)
			ch, sum, aux := isChild(f.Type(), depth)
			if ch {
				out = append(out, astChildField{Name: f.Name(), Sum: sum, Aux: aux})
			}
		}
		return out
	}
	isChild = func(t types.Type, depth int) (bool, bool, []string) {
		t = types.Unalias(t)
		switch x := t.(type) {
		case *types.Slice:
			ch, _, aux := isChild(x.Elem(), depth)
			return ch, false, aux
		case *types.Pointer:
			if n, ok := types.Unalias(x.Elem()).(*types.Named); ok && n.Obj().Pkg() == pkg {
				if len(sh.variant[n.Obj().Name()]) > 0 {
					return true, false, nil
				}
				if st, ok := n.Underlying().(*types.Struct); ok && depth == 0 && n.Obj().Name() != "Attribute" {
					var names []string
					for _, cf := range structChildren(st, 1) {
						names = append(names, cf.Name)
					}
					if len(names) > 0 {
						return true, false, names
					}
				}
			}
		case *types.Named:
			if x.Obj().Pkg() == pkg {
				if sh.sums[x.Obj().Name()] != nil {
					return true, true, nil
				}
				if st, ok := x.Underlying().(*types.Struct); ok && depth == 0 && len(sh.variant[x.Obj().Name()]) == 0 && x.Obj().Name() != "Attribute" {
					var names []string
					for _, cf := range structChildren(st, 1) {
						names = append(names, cf.Name)
					}
					if len(names) > 0 {
						return true, false, names
					}
				}
			}
		}
		return false, false, nil
	}
	for v := range sh.variant {
		n, _ := pkg.Scope().Lookup(v).Type().(*types.Named)
		if st, ok := n.Underlying().(*types.Struct); ok {
			sh.children[v] = structChildren(st, 0)
		}
	}
	c.cache["astShape"] = sh
	return sh
}

type astArm struct {
	Variant string
	Pos     token.Pos
	Unread  []string // child fields never used
	Whole   bool     // the node itself is handed on (its children travel with it)
	Narrow  []string // child fields only narrowed / nil-checked
	NChild  int
}

type astWalker struct {
	Func    *funcInfo
	Sum     string
	Ordinal int
	Pos     token.Pos
	Arms    []astArm
	Covered map[string]bool
	Default bool
}

func (w *astWalker) id() string {
	s := w.Func.id() + "/" + w.Sum
	if w.Ordinal > 1 {
		s += "#" + itoa(w.Ordinal)
	}
	return s
}

func (c *Ctx) astWalkers(pkgs func(string) bool) []*astWalker {
	return c.astWalkersF(func(fn *funcInfo) bool { return pkgs(fn.Pkg.Rel) })
}

func (c *Ctx) astWalkersF(keep func(*funcInfo) bool) []*astWalker {
	sh := c.astShape()
	var out []*astWalker
	for _, fn := range c.allFuncs() {
		if !keep(fn) {
			continue
		}
		info := fn.Pkg.Info
		ord := map[string]int{}
		ast.Inspect(fn.Decl.Body, func(n ast.Node) bool {
			ts, ok := n.(*ast.TypeSwitchStmt)
			if !ok {
				return true
			}
			var tagExpr ast.Expr
			switch a := ts.Assign.(type) {
			case *ast.AssignStmt:
				if ta, ok := a.Rhs[0].(*ast.TypeAssertExpr); ok {
					tagExpr = ta.X
				}
			case *ast.ExprStmt:
				if ta, ok := a.X.(*ast.TypeAssertExpr); ok {
					tagExpr = ta.X
				}
			}
			if tagExpr == nil {
				return true
			}
			tv, ok := info.Types[tagExpr]
			if !ok {
				return true
			}
			nt, ok := types.Unalias(tv.Type).(*types.Named)
			if !ok || nt.Obj().Pkg() == nil || relPkg(nt.Obj().Pkg().Path()) != parserRel || sh.sums[nt.Obj().Name()] == nil {
				return true
			}
			sum := nt.Obj().Name()
			ord[sum]++
			w := &astWalker{Func: fn, Sum: sum, Ordinal: ord[sum], Pos: ts.Pos(), Covered: map[string]bool{}}
			for _, cl := range ts.Body.List {
				cc := cl.(*ast.CaseClause)
				if cc.List == nil {
					w.Default = true
					continue
				}
				var vs []string
				for _, e := range cc.List {
					if tv, ok := info.Types[e]; ok {
						if v := namedName(tv.Type); v != "" {
							vs = append(vs, v)
						}
					}
				}
				for _, v := range vs {
					w.Covered[v] = true
				}
				if len(vs) != 1 {
					continue
				}
				v := vs[0]
				kids := sh.children[v]
				if len(kids) == 0 {
					continue
				}
				obj := info.Implicits[cc]
				if len(cc.Body) == 1 {
					if _, isRet := cc.Body[0].(*ast.ReturnStmt); isRet && !usesObj(info, cc.Body[0], obj) {
						// the arm answers without looking at the node (rejects it, or returns a constant)
						continue
					}
				}
				arm := astArm{Variant: v, Pos: cc.Pos(), NChild: len(kids)}
				if obj == nil {
					// no binding: children cannot be used at all through the switch variable
					for _, k := range kids {
						arm.Unread = append(arm.Unread, k.Name)
					}
					w.Arms = append(w.Arms, arm)
					continue
				}
				use := map[string]int{} // 0 none, 1 weak (nil / narrow / len), 2 used
				narrowed := map[string]bool{}
				auxUsed := map[string]bool{}
				wholeUse := false
				var stack []ast.Node
				for _, st := range cc.Body {
					ast.Inspect(st, func(m ast.Node) bool {
						if m == nil {
							stack = stack[:len(stack)-1]
							return true
						}
						stack = append(stack, m)
						switch x := m.(type) {
						case *ast.Ident:
							if info.Uses[x] == obj {
								// the whole node handed on (argument, assignment, return)?
								if len(stack) >= 2 {
									if _, isSel := stack[len(stack)-2].(*ast.SelectorExpr); !isSel {
										wholeUse = true
									}
								}
							}
						case *ast.SelectorExpr:
							if id, ok := ast.Unparen(x.X).(*ast.Ident); ok && info.Uses[id] == obj {
								var parent ast.Node
								if len(stack) >= 2 {
									parent = stack[len(stack)-2]
								}
								weak := false
								switch p := parent.(type) {
								case *ast.TypeAssertExpr:
									if p.X == x {
										weak = true
										narrowed[x.Sel.Name] = true
									}
								case *ast.BinaryExpr:
									if (p.Op == token.EQL || p.Op == token.NEQ) && (isNilIdent(p.X) || isNilIdent(p.Y)) {
										weak = true
									}
								case *ast.CallExpr:
									if fid, ok := p.Fun.(*ast.Ident); ok && fid.Name == "len" && len(p.Args) == 1 && p.Args[0] == x {
										weak = true
									}
								}
								lvl := 2
								if weak {
									lvl = 1
								}
								if use[x.Sel.Name] < lvl {
									use[x.Sel.Name] = lvl
								}
							} else if sel, ok := info.Selections[x]; ok && sel.Kind() == types.FieldVal {
								// a field of an auxiliary struct
								if n := namedOf(sel.Recv()); n != nil && n.Obj().Pkg() != nil && relPkg(n.Obj().Pkg().Path()) == parserRel {
									auxUsed[n.Obj().Name()+"."+x.Sel.Name] = true
								}
							}
						}
						return true
					})
				}
				arm.Whole = wholeUse
				for _, k := range kids {
					switch {
					case wholeUse:
						// the node itself is passed on: its children travel with it
					case use[k.Name] == 2:
						if len(k.Aux) > 0 {
							// every child of the auxiliary struct must be used somewhere in the arm
							auxType := c.auxTypeName(v, k.Name)
							for _, a := range k.Aux {
								if !auxUsed[auxType+"."+a] {
									arm.Unread = append(arm.Unread, k.Name+"[]."+a)
								}
							}
						}
					case use[k.Name] == 1 && narrowed[k.Name]:
						arm.Narrow = append(arm.Narrow, k.Name)
					default:
						arm.Unread = append(arm.Unread, k.Name)
					}
				}
				w.Arms = append(w.Arms, arm)
			}
			out = append(out, w)
			return true
		})
	}
	return out
}

func usesObj(info *types.Info, n ast.Node, obj types.Object) bool {
	found := false
	if obj == nil {
		return false
	}
	ast.Inspect(n, func(m ast.Node) bool {
		if id, ok := m.(*ast.Ident); ok && info.Uses[id] == obj {
			found = true
		}
		return !found
	})
	return found
}

func isNilIdent(e ast.Expr) bool {
	id, ok := ast.Unparen(e).(*ast.Ident)
	return ok && id.Name == "nil"
}

func (c *Ctx) auxTypeName(variant, field string) string {
	pkg := c.pkg(parserRel).Types
	n, _ := pkg.Scope().Lookup(variant).Type().(*types.Named)
	st := n.Underlying().(*types.Struct)
	for i := 0; i < st.NumFields(); i++ {
		if st.Field(i).Name() == field {
			t := types.Unalias(st.Field(i).Type())
			if s, ok := t.(*types.Slice); ok {
				t = types.Unalias(s.Elem())
			}
			return namedName(t)
		}
	}
	return ""
}

type astWalkException struct{ Walker, Construct, Reason string }

func (c *Ctx) runASTWalkers(r *Report, rule, family string, pkgs func(string) bool, exc []astWalkException) {
	c.runASTWalkersF(r, rule, family, func(fn *funcInfo) bool { return pkgs(fn.Pkg.Rel) }, exc)
}

func (c *Ctx) runASTWalkersF(r *Report, rule, family string, keep func(*funcInfo) bool, exc []astWalkException) {
	sh := c.astShape()
	excFor := func(w, k string) string {
		for _, e := range exc {
			if e.Walker == w && (e.Construct == k || e.Construct == "*") {
				return e.Reason
			}
		}
		return ""
	}
	nW, nOb := 0, 0
	for _, w := range c.astWalkersF(keep) {
		full := 0
		for _, a := range w.Arms {
			rest := 0
			for _, f := range append(append([]string{}, a.Unread...), a.Narrow...) {
				if excFor(w.id(), a.Variant+"."+f) == "" {
					rest++
				}
			}
			if rest == 0 {
				full++
			}
		}
		nOwn := 0
		for _, a := range w.Arms {
			if !a.Whole {
				nOwn++
			}
		}
		// a categoriser that only hands whole nodes on is not a walker
		if nOwn < 1 || len(w.Arms) < 3 || full*4 < len(w.Arms)*3 {
			continue
		}
		nW++
		for _, a := range w.Arms {
			if len(a.Unread) == 0 && len(a.Narrow) == 0 {
				nOb++
				r.ok(rule+".child", w.id()+":"+a.Variant, c.pos(a.Pos), "")
				continue
			}
			for _, f := range a.Unread {
				nOb++
				k := a.Variant + "." + f
				if why := excFor(w.id(), k); why != "" {
					r.exc(rule+".child", w.id()+":"+k, c.pos(a.Pos), why)
				} else {
					r.viol(rule+".child", w.id()+":"+k, c.pos(a.Pos), w.Func.id()+" walks "+w.Sum+" nodes but never uses the child "+k+" in its arm for "+a.Variant)
				}
			}
			for _, f := range a.Narrow {
				nOb++
				k := a.Variant + "." + f
				if why := excFor(w.id(), k); why != "" {
					r.exc(rule+".child", w.id()+":"+k, c.pos(a.Pos), why)
				} else {
					r.viol(rule+".child", w.id()+":"+k, c.pos(a.Pos), w.Func.id()+" only handles the child "+k+" after narrowing it to one variant of its sum (other variants are dropped)")
				}
			}
		}
		if !w.Default {
			var missing []string
			for _, v := range sh.sums[w.Sum].Variants {
				name := v.Obj().Name()
				if !w.Covered[name] && len(sh.children[name]) > 0 {
					missing = append(missing, name)
				}
			}
			sort.Strings(missing)
			for _, m := range missing {
				nOb++
				if why := excFor(w.id(), m); why != "" {
					r.exc(rule+".variant", w.id()+":"+m, c.pos(w.Pos), why)
				} else {
					r.viol(rule+".variant", w.id()+":"+m, c.pos(w.Pos), w.Func.id()+" walks "+w.Sum+" nodes without a default arm and has no arm for "+m+", which has child nodes")
				}
			}
			if len(missing) == 0 {
				r.ok(rule+".variant", w.id(), c.pos(w.Pos), "")
			}
		}
	}
	r.inst(family+".astwalkers", nW)
	r.inst(family+".astwalk.obligations", nOb)
}

func init() {
	dumpers["astwalk"] = func(c *Ctx, parts []string) {
		for _, w := range c.astWalkers(func(string) bool { return true }) {
			full := 0
			for _, a := range w.Arms {
				if len(a.Unread) == 0 && len(a.Narrow) == 0 {
					full++
				}
			}
			println(w.id(), c.pos(w.Pos), "arms", len(w.Arms), "full", full, "default", w.Default)
			for _, a := range w.Arms {
				if len(a.Unread)+len(a.Narrow) > 0 {
					println("   ", a.Variant, "unread:", strings.Join(a.Unread, ","), "narrow:", strings.Join(a.Narrow, ","))
				}
			}
		}
	}
}

// frontend walkers: the syntax-tree walkers reachable from the parser and lowerer entry points.
var astWalkExceptions = []astWalkException{
	{"wgsl/internal/lower.Lowerer.initHasConcreteType/Expr", "ConstructExpr.Type", "classification only: a constructor whose type is not a bare partial-constructor name is concrete whatever the type node is (the else path returns true without needing the type)"},
}

func (c *Ctx) runFrontendASTWalkers(r *Report, family string) {
	ents := c.entries(r, "wgsl/internal/lower.LowerWithWarnings", "wgsl/internal/parser.DependencyOrder", "wgsl/internal/parser.Parser.Parse")
	reach := c.reach(ents...)
	c.runASTWalkersF(r, "astwalk", family, func(fn *funcInfo) bool {
		return (fn.Pkg.Rel == "wgsl/internal/lower" || fn.Pkg.Rel == parserRel) && fn.Obj != nil && reach[fn.Obj]
	}, astWalkExceptions)
}
