package main

import (
	"go/ast"
	"go/types"
	"strings"
)

// staticGraph is the AST-level call graph: an edge for every statically
// resolved call and for every function or method value mentioned (so closures
// and callbacks passed around are over-approximated as called).
type staticGraph struct {
	out map[*types.Func][]*types.Func
}

func (c *Ctx) graph() *staticGraph {
	if v, ok := c.cache["staticGraph"]; ok {
		return v.(*staticGraph)
	}
	g := &staticGraph{out: map[*types.Func][]*types.Func{}}
	for _, fn := range c.allFuncs() {
		if fn.Obj == nil {
			continue
		}
		seen := map[*types.Func]bool{}
		info := fn.Pkg.Info
		ast.Inspect(fn.Decl.Body, func(n ast.Node) bool {
			var obj types.Object
			switch x := n.(type) {
			case *ast.Ident:
				obj = info.Uses[x]
			case *ast.SelectorExpr:
				if sel := info.Selections[x]; sel != nil {
					obj = sel.Obj()
				}
			}
			if f, ok := obj.(*types.Func); ok {
				f = f.Origin()
				if !seen[f] {
					seen[f] = true
					g.out[fn.Obj] = append(g.out[fn.Obj], f)
				}
			}
			return true
		})
	}
	// interface method calls: add edges to every implementation in the module (CHA)
	impls := c.ifaceImpls()
	for from, tos := range g.out {
		for _, t := range tos {
			if im := impls[t]; im != nil {
				g.out[from] = append(g.out[from], im...)
			}
		}
	}
	c.cache["staticGraph"] = g
	return g
}

// ifaceImpls maps an interface method to the concrete methods of module types implementing it.
func (c *Ctx) ifaceImpls() map[*types.Func][]*types.Func {
	out := map[*types.Func][]*types.Func{}
	var ifaces []*types.Named
	var concretes []*types.Named
	for _, p := range c.Roots {
		scope := p.Types.Scope()
		for _, n := range scope.Names() {
			tn, ok := scope.Lookup(n).(*types.TypeName)
			if !ok || tn.IsAlias() {
				continue
			}
			nm, ok := tn.Type().(*types.Named)
			if !ok || nm.TypeParams().Len() > 0 {
				continue
			}
			if _, ok := nm.Underlying().(*types.Interface); ok {
				ifaces = append(ifaces, nm)
			} else {
				concretes = append(concretes, nm)
			}
		}
	}
	for _, in := range ifaces {
		it := in.Underlying().(*types.Interface)
		if it.NumMethods() == 0 {
			continue
		}
		for _, cn := range concretes {
			for _, t := range []types.Type{cn, types.NewPointer(cn)} {
				if !types.Implements(t, it) {
					continue
				}
				ms := types.NewMethodSet(t)
				for i := 0; i < it.NumMethods(); i++ {
					m := it.Method(i)
					if sel := ms.Lookup(m.Pkg(), m.Name()); sel != nil {
						if f, ok := sel.Obj().(*types.Func); ok {
							out[m] = append(out[m], f)
						}
					}
				}
				break
			}
		}
	}
	return out
}

// lookupFunc resolves "pkgrel.Func" or "pkgrel.Type.Method" through go/types.
func (c *Ctx) lookupFunc(id string) *types.Func {
	i := strings.LastIndex(id, "/")
	j := strings.Index(id[i+1:], ".")
	if j < 0 {
		return nil
	}
	rel, rest := id[:i+1+j], id[i+1+j+1:]
	if rel == "naga" {
		rel = ""
	}
	p := c.ByPath[modPath+"/"+rel]
	if rel == "" {
		p = c.ByPath[modPath]
	}
	if p == nil {
		return nil
	}
	parts := strings.Split(rest, ".")
	if len(parts) == 1 {
		f, _ := p.Types.Scope().Lookup(parts[0]).(*types.Func)
		return f
	}
	tn, _ := p.Types.Scope().Lookup(parts[0]).(*types.TypeName)
	if tn == nil {
		return nil
	}
	obj, _, _ := types.LookupFieldOrMethod(types.NewPointer(tn.Type()), true, p.Types, parts[1])
	f, _ := obj.(*types.Func)
	return f
}

// reach returns every function statically reachable from the entries.
func (c *Ctx) reach(entries ...*types.Func) map[*types.Func]bool {
	g := c.graph()
	seen := map[*types.Func]bool{}
	var stack []*types.Func
	for _, e := range entries {
		if e != nil && !seen[e] {
			seen[e] = true
			stack = append(stack, e)
		}
	}
	for len(stack) > 0 {
		f := stack[len(stack)-1]
		stack = stack[:len(stack)-1]
		for _, t := range g.out[f] {
			if !seen[t] {
				seen[t] = true
				stack = append(stack, t)
			}
		}
	}
	return seen
}

// entries resolves API entry points; an unresolved one is an undecided obligation.
func (c *Ctx) entries(r *Report, ids ...string) []*types.Func {
	var out []*types.Func
	for _, id := range ids {
		f := c.lookupFunc(id)
		if f == nil {
			r.undecided("anchor", id, "", "public entry point "+id+" not found: cannot decide reachability-scoped rules")
			continue
		}
		out = append(out, f)
	}
	return out
}
