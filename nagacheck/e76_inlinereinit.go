package main

import (
	"go/ast"
	"go/types"
)

// inline.localreinit (C13): a local variable is initialised on every entry to
// its function (with its initialiser, else with zero). A pass that moves the
// locals of one function into another (appends values taken from
// callee.LocalVars to caller.LocalVars) turns "every entry to the callee" into
// "the place where the body was inlined", which may sit inside a loop of the
// caller; the caller's copy is initialised once. The pass must therefore emit
// a store of the initial value at that place: a loop over the source
// function's LocalVars that builds an ir.StmtStore.
func (c *Ctx) runInlineLocalReinit(r *Report, rule string, inPkg func(string) bool) {
	n := 0
	for _, fn := range c.allFuncs() {
		if !inPkg(fn.Pkg.Rel) || fn.Obj == nil || fn.Decl.Body == nil {
			continue
		}
		info := fn.Pkg.Info
		localVarsOf := func(e ast.Expr) types.Object {
			se, ok := ast.Unparen(e).(*ast.SelectorExpr)
			if !ok || se.Sel.Name != "LocalVars" {
				return nil
			}
			id, ok := ast.Unparen(se.X).(*ast.Ident)
			if !ok {
				return nil
			}
			if tv, ok := info.Types[se.X]; ok && irTypeName(derefType(tv.Type)) == "Function" {
				return info.ObjectOf(id)
			}
			return nil
		}
		// loops over SRC.LocalVars whose body appends to DST.LocalVars (DST != SRC)
		type mv struct {
			src types.Object
			pos ast.Node
		}
		var moves []mv
		storeLoop := map[types.Object]bool{}
		ast.Inspect(fn.Decl.Body, func(m ast.Node) bool {
			rs, ok := m.(*ast.RangeStmt)
			if !ok {
				return true
			}
			src := localVarsOf(rs.X)
			if src == nil {
				return true
			}
			ast.Inspect(rs.Body, func(k ast.Node) bool {
				switch x := k.(type) {
				case *ast.AssignStmt:
					if len(x.Lhs) == 1 && len(x.Rhs) == 1 {
						if dst := localVarsOf(x.Lhs[0]); dst != nil && dst != src {
							if call, ok := ast.Unparen(x.Rhs[0]).(*ast.CallExpr); ok {
								if id, ok := call.Fun.(*ast.Ident); ok && id.Name == "append" {
									moves = append(moves, mv{src, x})
								}
							}
						}
					}
				case *ast.CompositeLit:
					if tv, ok := info.Types[x]; ok && irTypeName(tv.Type) == "StmtStore" {
						storeLoop[src] = true
					}
				}
				return true
			})
			return true
		})
		seen := map[types.Object]bool{}
		for _, m := range moves {
			if seen[m.src] {
				continue
			}
			seen[m.src] = true
			n++
			cons := fn.id() + ":" + m.src.Name() + ".LocalVars"
			if storeLoop[m.src] {
				r.ok(rule, cons, c.pos(m.pos.Pos()), "")
			} else {
				r.viol(rule, cons, c.pos(m.pos.Pos()), fn.id()+" moves the local variables of "+m.src.Name()+" into another function and never stores their initial values where the body is placed: the copies are initialised once at the new function's entry, not at every (inlined) entry to "+m.src.Name())
			}
		}
	}
	r.inst(rule, n)
}

func init() {
	dumpers["inlinereinit"] = func(c *Ctx, parts []string) {
		r := newReport("dump")
		c.runInlineLocalReinit(r, "inline.localreinit", inPkgs("ir", "dxil"))
		for _, o := range r.Obs {
			println(o.Verdict, o.Construct, o.Pos)
		}
	}
}
