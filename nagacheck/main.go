// nagacheck: repository-specific static analyses deciding structural clauses
// of the given properties of gogpu/naga. See /verif/DESIGN.md.
package main

import (
	"encoding/json"
	"flag"
	"fmt"
	"os"
	"path/filepath"
	"runtime/debug"
	"runtime/pprof"
	"sort"
	"strconv"
	"strings"
	"time"
)

type propFunc func(ctx *Ctx, r *Report)

var props = map[string]propFunc{}

func register(id string, f propFunc) { props[id] = f }

func main() {
	prop := flag.String("prop", "", "property id (C01..C19), comma list, or 'all'")
	tier := flag.String("tier", "quick", "quick|thorough")
	repo := flag.String("repo", envOr("NAGA_REPO", "/repo"), "path of the naga working tree")
	verif := flag.String("verif", envOr("VERIF_DIR", "/verif"), "path of /verif")
	replay := flag.String("replay", "", "replay file: re-run its rule instance on the current tree")
	list := flag.Bool("list", false, "list registered properties")
	dump := flag.String("dump", "", "debug: dump an inventory (visitors:<Handle>:<Sum,...>)")
	emit := flag.Bool("emit-findings", false, "print a known-findings line for every new violation (for triage; never written to the file)")
	flag.Parse()

	if *list {
		var ids []string
		for id := range props {
			ids = append(ids, id)
		}
		sort.Strings(ids)
		fmt.Println(strings.Join(ids, " "))
		return
	}
	if pf := os.Getenv("NAGA_PROF"); pf != "" {
		f, _ := os.Create(pf)
		pprof.StartCPUProfile(f)
		defer pprof.StopCPUProfile()
	}
	if *dump != "" {
		abs, _ := filepath.Abs(*repo)
		ctx := loadRepo(abs, "quick", nil, "linux/amd64")
		runDump(ctx, *dump)
		return
	}
	seed, _ := strconv.Atoi(os.Getenv("VERIF_SEED"))
	if t := os.Getenv("VERIF_TIER"); t != "" && (t == "quick" || t == "thorough") && !flagSet("tier") {
		*tier = t
	}

	var rp *replayFile
	if *replay != "" {
		b, err := os.ReadFile(*replay)
		if err != nil {
			fmt.Printf("BROKEN: %v\n", err)
			os.Exit(2)
		}
		rp = &replayFile{}
		if err := json.Unmarshal(b, rp); err != nil {
			fmt.Printf("BROKEN: %v\n", err)
			os.Exit(2)
		}
		if *prop == "" {
			*prop = rp.Property
		}
	}

	var ids []string
	if *prop == "all" {
		for id := range props {
			ids = append(ids, id)
		}
		sort.Strings(ids)
	} else {
		for _, id := range strings.Split(*prop, ",") {
			id = strings.TrimSpace(id)
			if id == "" {
				continue
			}
			if props[id] == nil {
				fmt.Printf("BROKEN: property %s has no registered check\n", id)
				os.Exit(2)
			}
			ids = append(ids, id)
		}
	}
	if len(ids) == 0 {
		fmt.Println("BROKEN: no property given")
		os.Exit(2)
	}

	exit := 0
	func() {
		defer func() {
			if e := recover(); e != nil {
				if b, ok := e.(brokenErr); ok {
					fmt.Printf("BROKEN: %s\n", b.msg)
				} else {
					fmt.Printf("BROKEN: analyser panic: %v\n%s\n", e, debug.Stack())
				}
				exit = 2
			}
		}()
		abs, _ := filepath.Abs(*repo)
		t0 := time.Now()
		ctx := loadRepo(abs, *tier, nil, "linux/amd64")
		known := loadKnownFindings(filepath.Join(*verif, "known-findings.txt"))
		var altCtx []*Ctx
		if *tier == "thorough" && rp == nil {
			// the build-tagged configurations must give identical verdicts
			altCtx = append(altCtx,
				loadRepo(abs, *tier, []string{"GOOS=windows", "GOARCH=amd64", "CGO_ENABLED=0"}, "windows/amd64"),
				loadRepo(abs, *tier, []string{"GOOS=linux", "GOARCH=386", "CGO_ENABLED=0"}, "linux/386"))
		}
		loadWall := time.Since(t0).Seconds()
		for _, id := range ids {
			t1 := time.Now()
			r := newReport(id)
			props[id](ctx, r)
			if rp != nil {
				// keep only the replayed instance
				var keep []Ob
				for _, o := range r.Obs {
					if o.Rule == rp.Rule && o.Construct == rp.Construct {
						keep = append(keep, o)
					}
				}
				if len(keep) == 0 {
					fmt.Printf("replay: rule=%s construct=%s no longer produces an obligation on this tree\n", rp.Rule, rp.Construct)
				}
				for _, o := range keep {
					fmt.Printf("replay: [%s] rule=%s construct=%s %s: %s\n", o.Verdict, o.Rule, o.Construct, o.Pos, o.Msg)
					printExcerpt(ctx, o.Pos)
					if o.Verdict == Violation || o.Verdict == Undecided {
						exit = 1
					}
				}
				continue
			}
			for _, ac := range altCtx {
				r2 := newReport(id)
				props[id](ac, r2)
				compareConfigs(r, r2, ac.Config)
			}
			if len(altCtx) > 0 {
				r.Extra["configurations"] = []string{"linux/amd64", "windows/amd64", "linux/386"}
			}
			if *tier == "thorough" && rp == nil {
				runSelfTest(abs, *verif, r)
			}
			if *emit {
				for _, o := range r.Obs {
					if o.Verdict == Violation {
						fmt.Printf("finding: property=%s rule=%s construct=%s — %s\n", id, o.Rule, o.Construct, o.Msg)
					}
				}
			}
			wall := time.Since(t1).Seconds() + loadWall
			if c := finish(ctx, r, *verif, seed, wall, known); c > exit {
				exit = c
			}
		}
	}()
	pprof.StopCPUProfile()
	os.Exit(exit)
}

// compareConfigs adds a violation for every obligation whose verdict differs
// under another build configuration.
func compareConfigs(r, r2 *Report, label string) {
	key := func(o Ob) string { return o.Rule + "|" + o.Construct }
	m := map[string]string{}
	for _, o := range r.Obs {
		m[key(o)] = o.Verdict
	}
	seen := map[string]bool{}
	for _, o := range r2.Obs {
		seen[key(o)] = true
		if v, ok := m[key(o)]; !ok || v != o.Verdict {
			if o.Verdict == Violation || o.Verdict == Undecided {
				o.Msg = "[config " + label + "] " + o.Msg
				r.Obs = append(r.Obs, o)
			}
		}
	}
}

func printExcerpt(ctx *Ctx, pos string) {
	i := strings.LastIndex(pos, ":")
	if i < 0 {
		return
	}
	line, _ := strconv.Atoi(pos[i+1:])
	b, err := os.ReadFile(filepath.Join(ctx.RepoDir, pos[:i]))
	if err != nil {
		return
	}
	lines := strings.Split(string(b), "\n")
	for l := line - 3; l <= line+3; l++ {
		if l >= 1 && l <= len(lines) {
			mark := "  "
			if l == line {
				mark = "=>"
			}
			fmt.Printf("  %s %5d | %s\n", mark, l, lines[l-1])
		}
	}
}

func envOr(k, d string) string {
	if v := os.Getenv(k); v != "" {
		return v
	}
	return d
}

func flagSet(name string) bool {
	set := false
	flag.Visit(func(f *flag.Flag) {
		if f.Name == name {
			set = true
		}
	})
	return set
}
