package main

// E2 dispatch: coverage and default discipline of switches over IR sums / enums.

import (
	"fmt"
	"go/ast"
	"go/constant"
	"go/token"
	"go/types"
	"sort"
	"strings"
)

type dispatchSwitch struct {
	Func     *funcInfo
	TagType  string // ir type name
	IsSum    bool
	Covered  map[string]token.Pos // member name -> position of its arm
	Default  string               // "none" | "error" | "false" | "value" | "panic" | "other"
	DefPos   token.Pos
	Pos      token.Pos
	Ordinal  int
	Universe []string
	NArms    int
	TagExpr  string
	After    string // what the code after the switch does when no arm returned ("" if unknown)
	Evaluator bool  // >= 2 arms compute arithmetic/comparison results
	Stmt     ast.Stmt
}

func (d *dispatchSwitch) id() string {
	s := d.Func.id() + "/" + d.TagType
	if d.Ordinal > 1 {
		s += fmt.Sprintf("#%d", d.Ordinal)
	}
	return s
}

// enumUniverse: named non-interface types of package ir with >= 2 package-level constants.
func (c *Ctx) enumUniverse() map[string][]string {
	if v, ok := c.cache["enumUniverse"]; ok {
		return v.(map[string][]string)
	}
	out := map[string][]string{}
	p := c.pkg("ir")
	scope := p.Types.Scope()
	for _, n := range scope.Names() {
		k, ok := scope.Lookup(n).(*types.Const)
		if !ok {
			continue
		}
		nt, ok := k.Type().(*types.Named)
		if !ok || nt.Obj().Pkg() != p.Types {
			continue
		}
		out[nt.Obj().Name()] = append(out[nt.Obj().Name()], n)
	}
	// the parser's token kinds: the module-constant evaluators dispatch on operator tokens
	if pp := c.ByPath[modPath+"/wgsl/internal/parser"]; pp != nil {
		ps := pp.Types.Scope()
		for _, n := range ps.Names() {
			if k, ok := ps.Lookup(n).(*types.Const); ok {
				if nt, ok := k.Type().(*types.Named); ok && nt.Obj().Pkg() == pp.Types && nt.Obj().Name() == "TokenKind" {
					out["parser.TokenKind"] = append(out["parser.TokenKind"], n)
				}
			}
		}
	}
	for k, v := range out {
		if len(v) < 2 {
			delete(out, k)
			continue
		}
		sort.Strings(v)
	}
	c.cache["enumUniverse"] = out
	return out
}

// constName resolves a case label to the ir constant it denotes (by value and type).
func irConstName(info *types.Info, e ast.Expr) string {
	var obj types.Object
	switch x := ast.Unparen(e).(type) {
	case *ast.Ident:
		obj = info.Uses[x]
	case *ast.SelectorExpr:
		obj = info.Uses[x.Sel]
	}
	if k, ok := obj.(*types.Const); ok && k.Pkg() != nil {
		if rp := relPkg(k.Pkg().Path()); rp == "ir" || rp == "wgsl/internal/parser" {
			return k.Name()
		}
	}
	return ""
}

// dispatchSwitches inventories every switch over an ir enum or sum in library code.
func (c *Ctx) dispatchSwitches() []*dispatchSwitch {
	if v, ok := c.cache["dispatchSwitches"]; ok {
		return v.([]*dispatchSwitch)
	}
	sums := c.sumTypes("ir")
	enums := c.enumUniverse()
	var out []*dispatchSwitch
	for _, fn := range c.allFuncs() {
		info := fn.Pkg.Info
		ord := map[string]int{}
		results := fn.Decl.Type.Results
		ast.Inspect(fn.Decl.Body, func(n ast.Node) bool {
			switch x := n.(type) {
			case *ast.FuncLit:
				// closures have their own result lists: judged with the literal's signature
				return true
			case *ast.SwitchStmt:
				if x.Tag == nil {
					return true
				}
				tv, ok := info.Types[x.Tag]
				if !ok {
					return true
				}
				nt, ok := types.Unalias(tv.Type).(*types.Named)
				if !ok || nt.Obj().Pkg() == nil {
					return true
				}
				tname := nt.Obj().Name()
				switch relPkg(nt.Obj().Pkg().Path()) {
				case "ir":
				case "wgsl/internal/parser":
					tname = "parser." + tname
				default:
					return true
				}
				uni, ok := enums[tname]
				if !ok {
					return true
				}
				ord[tname]++
				d := &dispatchSwitch{Func: fn, TagType: tname, Covered: map[string]token.Pos{}, Default: "none", Pos: x.Pos(), Ordinal: ord[tname], Universe: uni, TagExpr: types.ExprString(x.Tag)}
				for _, cl := range x.Body.List {
					cc := cl.(*ast.CaseClause)
					if cc.List == nil {
						d.Default = classifyDefault(info, cc.Body, enclosingResults(fn, x, results))
						d.DefPos = cc.Pos()
						continue
					}
					d.NArms++
					for _, e := range cc.List {
						if name := irConstName(info, e); name != "" {
							d.Covered[name] = cc.Pos()
						}
					}
				}
				d.Stmt = x
				d.Evaluator = countArithArms(x.Body) >= 2
				out = append(out, d)
			case *ast.TypeSwitchStmt:
				tag, _ := typeSwitchParts(x)
				if tag == nil {
					return true
				}
				tv, ok := info.Types[tag]
				if !ok {
					return true
				}
				s := sumOf(sums, tv.Type)
				if s == nil {
					return true
				}
				ord[s.Name]++
				var uni []string
				for _, v := range s.Variants {
					uni = append(uni, v.Obj().Name())
				}
				d := &dispatchSwitch{Func: fn, TagType: s.Name, IsSum: true, Covered: map[string]token.Pos{}, Default: "none", Pos: x.Pos(), Ordinal: ord[s.Name], Universe: uni, TagExpr: types.ExprString(tag)}
				for _, cl := range x.Body.List {
					cc := cl.(*ast.CaseClause)
					if cc.List == nil {
						d.Default = classifyDefault(info, cc.Body, enclosingResults(fn, x, results))
						d.DefPos = cc.Pos()
						continue
					}
					d.NArms++
					for _, e := range cc.List {
						if tt, ok := info.Types[e]; ok {
							if nn := namedOf(tt.Type); nn != nil && s.has(nn.Obj().Name()) {
								d.Covered[nn.Obj().Name()] = cc.Pos()
							}
						}
					}
				}
				out = append(out, d)
			}
			return true
		})
	}
	// classify the fall-through path of value switches
	for _, d := range out {
		if d.Stmt == nil || (d.Default != "none" && d.Default != "other") {
			continue
		}
		d.After = afterSwitch(d.Func, d.Stmt)
	}
	c.cache["dispatchSwitches"] = out
	return out
}

// countArithArms: number of case arms that contain an arithmetic / bitwise /
// comparison binary expression (the arm computes a result).
func countArithArms(body *ast.BlockStmt) int {
	isArith := func(e ast.Expr) bool {
		has := false
		ast.Inspect(e, func(m ast.Node) bool {
			if be, ok := m.(*ast.BinaryExpr); ok {
				switch be.Op {
				case token.ADD, token.SUB, token.MUL, token.QUO, token.REM, token.AND, token.OR, token.XOR, token.SHL, token.SHR,
					token.LSS, token.GTR, token.LEQ, token.GEQ, token.EQL, token.NEQ, token.AND_NOT:
					has = true
				}
			}
			if _, ok := m.(*ast.FuncLit); ok {
				return false
			}
			return !has
		})
		return has
	}
	n := 0
	for _, cl := range body.List {
		cc := cl.(*ast.CaseClause)
		if cc.List == nil {
			continue
		}
		has := false
		for _, st := range cc.Body {
			ast.Inspect(st, func(m ast.Node) bool {
				switch x := m.(type) {
				case *ast.ReturnStmt:
					if len(x.Results) > 0 && isArith(x.Results[0]) {
						has = true
					}
				case *ast.AssignStmt:
					for _, r := range x.Rhs {
						if isArith(r) {
							has = true
						}
					}
				case *ast.IfStmt:
					// conditions are not results
					if x.Init != nil {
						return true
					}
				}
				return !has
			})
		}
		if has {
			n++
		}
	}
	return n
}

// afterSwitch classifies the first return statement that follows the switch
// on the path taken when no arm returned: the statements after it in its
// enclosing list, then (if that list ends) after the enclosing statement, ...
func afterSwitch(fn *funcInfo, sw ast.Stmt) string {
	info := fn.Pkg.Info
	// parent lists
	type loc struct {
		list  []ast.Stmt
		idx   int
		owner ast.Node // statement owning the list
	}
	where := map[ast.Stmt]loc{}
	var stack []ast.Node
	ast.Inspect(fn.Decl.Body, func(n ast.Node) bool {
		if n == nil {
			stack = stack[:len(stack)-1]
			return true
		}
		var list []ast.Stmt
		switch x := n.(type) {
		case *ast.BlockStmt:
			list = x.List
		case *ast.CaseClause:
			list = x.Body
		case *ast.CommClause:
			list = x.Body
		}
		for i, st := range list {
			where[st] = loc{list, i, n}
		}
		stack = append(stack, n)
		return true
	})
	// owning statement of a list node: climb to the nearest ast.Stmt that is itself in `where`
	parentStmt := map[ast.Node]ast.Stmt{}
	var walk func(n ast.Node, cur ast.Stmt)
	walk = func(n ast.Node, cur ast.Stmt) {
		children(n, func(m ast.Node) {
			next := cur
			if st, ok := m.(ast.Stmt); ok {
				if _, in := where[st]; in {
					next = st
				}
			}
			parentStmt[m] = cur
			walk(m, next)
		})
	}
	walk(fn.Decl.Body, nil)
	results := enclosingResults(fn, sw, fn.Decl.Type.Results)
	cur := sw
	for depth := 0; depth < 12 && cur != nil; depth++ {
		l, ok := where[cur]
		if !ok {
			return "other"
		}
		for _, nx := range l.list[l.idx+1:] {
			switch rs := nx.(type) {
			case *ast.ReturnStmt:
				return classifyDefault(info, []ast.Stmt{rs}, results)
			default:
				// other statements (further conditional handlers, bookkeeping) are
				// passed over: the fall-back of the evaluation is the first plain
				// return at this or an enclosing level
				continue
			}
		}
		// list ended: continue after the statement that owns this list
		owner := parentStmt[l.owner]
		if st, ok := l.owner.(ast.Stmt); ok {
			if _, in := where[st]; in {
				owner = st
			}
		}
		if owner == nil {
			return "end"
		}
		if _, isLoop := owner.(*ast.ForStmt); isLoop {
			return "other"
		}
		if _, isLoop := owner.(*ast.RangeStmt); isLoop {
			return "other"
		}
		cur = owner
	}
	return "other"
}

// enclosingResults returns the result list of the innermost function literal
// enclosing node n inside fn (or fn's own results).
func enclosingResults(fn *funcInfo, n ast.Node, def *ast.FieldList) *ast.FieldList {
	res := def
	ast.Inspect(fn.Decl.Body, func(m ast.Node) bool {
		if lit, ok := m.(*ast.FuncLit); ok {
			if lit.Pos() <= n.Pos() && n.End() <= lit.End() {
				res = lit.Type.Results
			}
		}
		return true
	})
	return res
}

// classifyDefault says what the default arm does.
func classifyDefault(info *types.Info, body []ast.Stmt, results *ast.FieldList) string {
	if len(body) == 0 {
		return "none"
	}
	// find the first return / panic at top level of the arm (through trailing statements)
	for _, st := range body {
		switch x := st.(type) {
		case *ast.ExprStmt:
			if call, ok := x.X.(*ast.CallExpr); ok {
				if id, ok := ast.Unparen(call.Fun).(*ast.Ident); ok {
					if b, ok := info.Uses[id].(*types.Builtin); ok && b.Name() == "panic" {
						return "panic"
					}
				}
			}
		case *ast.ReturnStmt:
			if len(x.Results) == 0 {
				return "other"
			}
			last := x.Results[len(x.Results)-1]
			lt := info.Types[last]
			if len(x.Results) == 1 && lt.IsNil() {
				return "false" // returns nil (no value): a decline
			}
			if lt.Type != nil && isErrorType(lt.Type) {
				if isNil(info, last) {
					return "value"
				}
				return "error"
			}
			if lt.IsNil() && results != nil && len(results.List) > 0 {
				// nil in an error-typed result position
				rt := info.Types[results.List[len(results.List)-1].Type]
				if rt.Type != nil && isErrorType(rt.Type) {
					return "value"
				}
			}
			if lt.Type != nil {
				if b, ok := types.Unalias(lt.Type).Underlying().(*types.Basic); ok && b.Info()&types.IsBoolean != 0 && len(x.Results) >= 2 {
					if lt.Value != nil && lt.Value.Kind() == constant.Bool && !constant.BoolVal(lt.Value) {
						return "false"
					}
				}
			}
			// single call result: return f(x) — delegation, unknown
			if len(x.Results) == 1 {
				if call, ok := ast.Unparen(x.Results[0]).(*ast.CallExpr); ok {
					if ft, ok := info.Types[call.Fun]; ok && ft.IsType() {
						return "value" // a conversion, not a delegation
					}
					return "delegate"
				}
			}
			return "value"
		}
	}
	return "other"
}

func isErrorType(t types.Type) bool {
	if n, ok := types.Unalias(t).(*types.Named); ok {
		return n.Obj().Pkg() == nil && n.Obj().Name() == "error"
	}
	return false
}

// producedMembers: enum constants / variants mentioned in the frontend
// (wgsl/internal/lower and package ir outside switch case labels).
func (c *Ctx) producedMembers() map[string]bool {
	if v, ok := c.cache["producedMembers"]; ok {
		return v.(map[string]bool)
	}
	out := map[string]bool{}
	for name, pk := range c.producedIn() {
		for rel := range pk {
			if rel == "wgsl/internal/lower" || rel == "ir" {
				out[name] = true
			}
		}
	}
	for _, rel := range []string{"wgsl/internal/lower", "ir"} {
		p := c.pkg(rel)
		for _, f := range p.Syntax {
			// uses of ir constants that are not case labels
			labels := map[*ast.Ident]bool{}
			ast.Inspect(f, func(n ast.Node) bool {
				if cc, ok := n.(*ast.CaseClause); ok {
					for _, e := range cc.List {
						ast.Inspect(e, func(m ast.Node) bool {
							if id, ok := m.(*ast.Ident); ok {
								labels[id] = true
							}
							return true
						})
					}
				}
				return true
			})
			ast.Inspect(f, func(n ast.Node) bool {
				id, ok := n.(*ast.Ident)
				if !ok || labels[id] {
					return true
				}
				if k, ok := p.TypesInfo.Uses[id].(*types.Const); ok && k.Pkg() != nil && relPkg(k.Pkg().Path()) == "ir" {
					if rel == "ir" {
						// inside ir only table-like uses count; keep conservative: ignore
						return true
					}
					out[k.Name()] = true
				}
				return true
			})
		}
	}
	c.cache["producedMembers"] = out
	return out
}

type dispatchException struct{ Switch, Member, Reason string }

type dispatchConfig struct {
	Rule       string
	Family     string
	Pkg        func(string) bool
	FuncFilter func(*funcInfo) bool
	Types      map[string]bool // tag types judged (nil = all)
	// what to judge
	SilentDefault bool // default arm returns a plausible value for a missing producible member
	FalseReject   bool // default arm returns an error for a missing producible member
	MinFraction   float64
	Exceptions    []dispatchException
}

func (c *Ctx) runDispatch(r *Report, cfg dispatchConfig) {
	exc := map[string]string{}
	for _, e := range cfg.Exceptions {
		exc[e.Switch+"|"+e.Member] = e.Reason
	}
	produced := c.producedMembers()
	n := 0
	for _, d := range c.dispatchSwitches() {
		if cfg.Pkg != nil && !cfg.Pkg(d.Func.Pkg.Rel) {
			continue
		}
		if cfg.FuncFilter != nil && !cfg.FuncFilter(d.Func) {
			continue
		}
		if cfg.Types != nil && !cfg.Types[d.TagType] {
			continue
		}
		frac := float64(len(d.Covered)) / float64(len(d.Universe))
		if frac < cfg.MinFraction {
			continue
		}
		n++
		for _, m := range d.Universe {
			construct := d.id() + ":" + m
			if pos, ok := d.Covered[m]; ok {
				r.triv(cfg.Rule, construct, c.pos(pos), "")
				continue
			}
			if !produced[m] {
				reason := "member " + m + " is never produced by the WGSL frontend"
				if c.dxilOnly(m) {
					reason = "member " + m + " is produced only by the DXIL pre-emission passes"
				}
				r.add(cfg.Rule, construct, OK, c.pos(d.Pos), reason, false)
				continue
			}
			if reason, ok := exc[d.id()+"|"+m]; ok {
				r.exc(cfg.Rule, construct, c.pos(d.Pos), reason)
				continue
			}
			if reason, ok := exc[d.id()+"|*"]; ok {
				r.exc(cfg.Rule, construct, c.pos(d.Pos), reason)
				continue
			}
			switch d.Default {
			case "error", "panic":
				if cfg.FalseReject {
					r.viol(cfg.Rule+".reject", construct, c.pos(d.DefPos), fmt.Sprintf("%s dispatches on %s but has no arm for %s, which the frontend produces; the default arm returns an error: a valid program is rejected", d.Func.id(), d.TagType, m))
				} else {
					r.ok(cfg.Rule, construct, c.pos(d.DefPos), "unhandled member is signalled by the default arm")
				}
			case "false", "delegate":
				r.ok(cfg.Rule, construct, c.pos(d.DefPos), "unhandled member is declined / delegated by the default arm")
			default:
				if cfg.SilentDefault {
					what := "falls through without signalling"
					if d.Default == "value" {
						what = "returns a plausible value"
					}
					r.viol(cfg.Rule+".silent", construct, c.pos(d.Pos), fmt.Sprintf("%s dispatches on %s (%d of %d members) but has no arm for %s, which the frontend produces; the default path %s", d.Func.id(), d.TagType, len(d.Covered), len(d.Universe), m, what))
				} else {
					r.ok(cfg.Rule, construct, c.pos(d.Pos), "")
				}
			}
		}
	}
	r.inst(cfg.Family, n)
}

func init() {
	dumpers["dispatch"] = func(c *Ctx, parts []string) {
		produced := c.producedMembers()
		for _, d := range c.dispatchSwitches() {
			if len(parts) > 1 && !strings.HasPrefix(d.Func.Pkg.Rel, parts[1]) {
				continue
			}
			if len(parts) > 2 && d.TagType != parts[2] {
				continue
			}
			var missing []string
			for _, m := range d.Universe {
				if _, ok := d.Covered[m]; !ok && produced[m] {
					missing = append(missing, m)
				}
			}
			if len(parts) <= 3 && len(d.Covered)*3 < len(d.Universe)*2 {
				continue
			}
			if len(missing) > 6 {
				missing = append(missing[:6], "...")
			}
			fmt.Printf("%-75s %s cov=%d/%d default=%s after=%s eval=%v missing=%v\n", d.id(), c.pos(d.Pos), len(d.Covered), len(d.Universe), d.Default, d.After, d.Evaluator, missing)
		}
	}
}

// returnsValue: the function's first result is a computed value (number, bool,
// literal), not an id/string/error — the shape of a compile-time evaluator.
func returnsValue(fn *funcInfo) bool {
	if fn.Obj == nil {
		return false
	}
	sig := fn.Obj.Type().(*types.Signature)
	if sig.Results().Len() == 0 {
		return false
	}
	t := types.Unalias(sig.Results().At(0).Type())
	if sig.Results().Len() >= 2 && isErrorType(sig.Results().At(sig.Results().Len()-1).Type()) {
		if b, ok := t.Underlying().(*types.Basic); ok && b.Info()&types.IsUnsigned != 0 {
			return false // (id, error): an emitter returning a result id
		}
	}
	if b, ok := t.Underlying().(*types.Basic); ok {
		if _, named := t.(*types.Named); named {
			// named basic types of the repo (ids, opcodes) are not values; ir literals are
			n := t.(*types.Named)
			if n.Obj().Pkg() != nil && relPkg(n.Obj().Pkg().Path()) == "ir" && strings.HasPrefix(n.Obj().Name(), "Literal") {
				return true
			}
			return false
		}
		return b.Info()&(types.IsNumeric|types.IsBoolean) != 0
	}
	if n := namedOf(t); n != nil && n.Obj().Pkg() != nil && relPkg(n.Obj().Pkg().Path()) == "ir" {
		switch n.Obj().Name() {
		case "LiteralValue", "Literal", "ScalarValue", "ConstantValue":
			return true
		}
	}
	return false
}

// runEvaluators: every switch over an operator/function enum inside a value-
// returning evaluator must decline (ok=false / nil / error) on a member it does
// not handle; returning or falling through to a plausible value is a silent default.
func (c *Ctx) runEvaluators(r *Report, rule, family string, pkg func(string) bool, exceptions []dispatchException) {
	exc := map[string]string{}
	for _, e := range exceptions {
		exc[e.Switch+"|"+e.Member] = e.Reason
	}
	n := 0
	for _, d := range c.dispatchSwitches() {
		if pkg != nil && !pkg(d.Func.Pkg.Rel) {
			continue
		}
		switch d.TagType {
		case "BinaryOperator", "UnaryOperator", "MathFunction", "RelationalFunction", "parser.TokenKind":
		default:
			continue
		}
		if !d.Evaluator || !returnsValue(d.Func) {
			continue
		}
		n++
		construct := d.id()
		missing := 0
		for _, m := range d.Universe {
			if _, ok := d.Covered[m]; !ok {
				missing++
			}
		}
		if missing == 0 {
			r.ok(rule, construct, c.pos(d.Pos), "handles every member")
			continue
		}
		path := d.Default
		if path == "none" || path == "other" {
			path = d.After
		}
		switch path {
		case "false", "error", "panic", "delegate":
			r.ok(rule, construct, c.pos(d.Pos), fmt.Sprintf("%d unhandled members are declined (%s)", missing, path))
		default:
			if reason, ok := exc[construct+"|*"]; ok {
				r.exc(rule, construct, c.pos(d.Pos), reason)
				continue
			}
			r.viol(rule, construct, c.pos(d.Pos), fmt.Sprintf("%s evaluates %s but for %d of %d members the default path yields a value (%s) instead of declining: a different value is substituted silently", d.Func.id(), d.TagType, missing, len(d.Universe), path))
		}
	}
	r.inst(family, n)
}

func init() {
	dumpers["evaluators"] = func(c *Ctx, parts []string) {
		r := newReport("dump")
		c.runEvaluators(r, "eval.default", "evaluators", nil, nil)
		for _, o := range r.Obs {
			fmt.Println(o.Verdict, o.Construct, o.Pos, o.Msg)
		}
	}
}
