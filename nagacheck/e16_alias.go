package main

// alias.loopstate (C13): a pass that walks the arms of a branching statement
// one after the other restores its per-path state (a map from variable to
// current value) at the start of every arm from the state before the branch.
// Inside a loop, a map-typed field or variable may be (re)assigned from a
// loop-invariant map only through a call (the copying helper), `nil`, `make` or
// a literal: assigning the bare loop-invariant map makes every iteration share
// ONE map, so what one arm records leaks into the following, mutually
// exclusive arms and into the merge.
//
// Instances = assignments, inside loops, of a map-typed target from a call
// that receives a loop-invariant map (the copy sites); violations = bare
// assignments of a loop-invariant map to a map-typed field.

import (
	"go/ast"
	"go/types"
)

func (c *Ctx) runLoopStateAlias(r *Report, rule string, pkgs func(string) bool) {
	nCopy := 0
	for _, fn := range c.allFuncs() {
		if !pkgs(fn.Pkg.Rel) {
			continue
		}
		info := fn.Pkg.Info
		var loops []ast.Node
		ord := map[string]int{}
		isMap := func(e ast.Expr) bool {
			tv, ok := info.Types[e]
			if !ok || tv.Type == nil {
				return false
			}
			_, m := tv.Type.Underlying().(*types.Map)
			return m
		}
		invariant := func(o types.Object) bool {
			if len(loops) == 0 || o == nil {
				return false
			}
			lp := loops[len(loops)-1]
			return o.Pos() < lp.Pos() || o.Pos() > lp.End()
		}
		var walk func(n ast.Node)
		walk = func(n ast.Node) {
			ast.Inspect(n, func(m ast.Node) bool {
				switch x := m.(type) {
				case *ast.FuncLit:
					return false
				case *ast.ForStmt:
					loops = append(loops, x)
					walk(x.Body)
					loops = loops[:len(loops)-1]
					return false
				case *ast.RangeStmt:
					loops = append(loops, x)
					walk(x.Body)
					loops = loops[:len(loops)-1]
					return false
				case *ast.AssignStmt:
					if len(loops) == 0 {
						return true
					}
					for i, l := range x.Lhs {
						if i >= len(x.Rhs) || len(x.Lhs) != len(x.Rhs) || !isMap(l) {
							continue
						}
						se, isField := ast.Unparen(l).(*ast.SelectorExpr)
						if !isField {
							continue
						}
						if sel := info.Selections[se]; sel == nil || sel.Kind() != types.FieldVal {
							continue
						}
						cons := fn.id() + ":" + noSpace(types.ExprString(l))
						switch rhs := ast.Unparen(x.Rhs[i]).(type) {
						case *ast.Ident:
							o := info.Uses[rhs]
							if _, isNil := o.(*types.Nil); isNil || !invariant(o) {
								continue
							}
							ord[cons]++
							if ord[cons] > 1 {
								cons += "#" + itoa(ord[cons])
							}
							r.viol(rule, cons, c.pos(x.Pos()), fn.id()+" assigns the loop-invariant map "+rhs.Name+" itself to "+types.ExprString(l)+" in every iteration: all iterations share one map, so state recorded while processing one arm leaks into the next (a copy is needed)")
						case *ast.CallExpr:
							copies := false
							for _, a := range rhs.Args {
								if id, ok := ast.Unparen(a).(*ast.Ident); ok && isMap(a) && invariant(info.Uses[id]) {
									copies = true
								}
							}
							if copies {
								nCopy++
								ord[cons]++
								if ord[cons] > 1 {
									cons += "#" + itoa(ord[cons])
								}
								r.ok(rule, cons, c.pos(x.Pos()), "")
							}
						}
					}
				}
				return true
			})
		}
		walk(fn.Decl.Body)
	}
	r.inst("alias.loopstate.copysites", nCopy)
}
