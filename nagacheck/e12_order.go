package main

// E12 operand order (C01, C03-C06, C13, C14, C18).
//
// WGSL's binary operators are written `left op right`; the IR keeps the two
// operands as the fields Left and Right of ir.ExprBinary (and the parser as
// BinaryExpr.Left / .Right). A value is *left-derived* (class L) when it is
// computed only from a `.Left` selection on a node that has both fields, or
// from the first of the two operand parameters of a function that also
// receives the operator; *right-derived* (class R) likewise. Classes propagate
// flow-insensitively through assignments, range statements and call results
// (multi-value results of static callees through a per-result parameter
// summary). Only operand *values* carry a class: expressions whose Go type is
// a type description (ir.*Type, *Kind, TypeResolution, TypeHandle), bool or
// error carry none - the result type legitimately depends on both operands.
// Values computed from both are "mixed" and never judged.
//
//   order.pair   wherever a pure-L and a pure-R value are handed on *together*
//                - two arguments of one call, two elements of one positional
//                composite literal, the Left/Right fields of a keyed literal -
//                no R-value precedes the first L-value / L goes to the
//                left-named field. A site that deliberately mirrors the
//                operands (scalar * matrix emitted as OpMatrixTimesScalar
//                matrix scalar) is a named exception.
//   order.emit   within one statement list, the first statement that only
//                emits (a call whose results are discarded or are only an
//                error) a pure-R value does not precede the first that emits a
//                pure-L value.
//
// A swapped pair changes the result of every non-commutative operator
// (-, /, %, <<, >>, <, <=, >, >=, matrix products) and leaves every test over
// commutative operators green.

import (
	"go/ast"
	"go/token"
	"go/types"
	"sort"
	"strings"
)

// carriesValue: can a Go value of type t carry an operand value (as opposed to
// a description of its type, a flag or an error)?
func carriesValue(t types.Type) bool {
	if t == nil {
		return false
	}
	t = types.Unalias(t)
	switch u := t.(type) {
	case *types.Pointer:
		return carriesValue(u.Elem())
	case *types.Slice:
		return carriesValue(u.Elem())
	case *types.Array:
		return carriesValue(u.Elem())
	case *types.Tuple:
		for i := 0; i < u.Len(); i++ {
			if carriesValue(u.At(i).Type()) {
				return true
			}
		}
		return false
	case *types.Named:
		n := u.Obj().Name()
		if n == "error" {
			return false
		}
		for _, suf := range []string{"Type", "TypeInner", "TypeHandle", "TypeResolution", "ScalarKind", "VectorSize"} {
			if strings.HasSuffix(n, suf) {
				return false
			}
		}
		if b, ok := u.Underlying().(*types.Basic); ok && b.Kind() == types.Bool {
			return false
		}
		return true
	case *types.Basic:
		return u.Kind() != types.Bool && u.Kind() != types.UntypedBool
	}
	return true
}

type taintState struct {
	fn   *funcInfo
	info *types.Info
	cls  map[types.Object]uint64
	lr   bool // seed .Left/.Right selections with bits 1/2
	c    *Ctx
	// the two parameters seeded as first / second operand (nil when the classes come from .Left/.Right only)
	seedL, seedR types.Object
}

// pairedNames: do a and b name the first and the second member of a pair
// (arg0ID / arg1ID, x1 / x2, left / right, lhs / rhs)?
func pairedNames(a, b string) bool {
	if len(a) == len(b) {
		diff := -1
		for i := 0; i < len(a); i++ {
			if a[i] != b[i] {
				if diff >= 0 {
					diff = -2
					break
				}
				diff = i
			}
		}
		if diff >= 0 && ((a[diff] == '0' && b[diff] == '1') || (a[diff] == '1' && b[diff] == '2')) {
			// the digit must not be part of a longer number (x10 / x11)
			if (diff == 0 || a[diff-1] < '0' || a[diff-1] > '9') && (diff+1 == len(a) || a[diff+1] < '0' || a[diff+1] > '9') {
				return true
			}
		}
	}
	la, lb := strings.ToLower(a), strings.ToLower(b)
	for _, pr := range [][2]string{{"left", "right"}, {"lhs", "rhs"}} {
		if i := strings.Index(la, pr[0]); i >= 0 && la[:i]+pr[1]+la[i+len(pr[0]):] == lb {
			return true
		}
	}
	return false
}

func isLRSelection(info *types.Info, x *ast.SelectorExpr) uint64 {
	if x.Sel.Name != "Left" && x.Sel.Name != "Right" {
		return 0
	}
	sel, ok := info.Selections[x]
	if !ok || sel.Kind() != types.FieldVal {
		return 0
	}
	t := sel.Recv()
	if p, ok := t.Underlying().(*types.Pointer); ok {
		t = p.Elem()
	}
	st, ok := t.Underlying().(*types.Struct)
	if !ok {
		return 0
	}
	// statements with a left/right side (assignments: target and value) are not operand pairs
	if n := namedName(t); strings.HasSuffix(n, "Stmt") || strings.HasPrefix(n, "Stmt") || strings.Contains(n, "Assign") {
		return 0
	}
	hasL, hasR := false, false
	for i := 0; i < st.NumFields(); i++ {
		hasL = hasL || st.Field(i).Name() == "Left"
		hasR = hasR || st.Field(i).Name() == "Right"
	}
	if !hasL || !hasR {
		return 0
	}
	if x.Sel.Name == "Left" {
		return 1
	}
	return 2
}

// bits of an expression: union of the bits of the value-carrying parts.
func (s *taintState) bits(e ast.Expr) uint64 {
	if e == nil {
		return 0
	}
	if tv, ok := s.info.Types[e]; ok && tv.Type != nil && !tv.IsType() {
		if !carriesValue(tv.Type) {
			return 0
		}
	}
	switch x := e.(type) {
	case *ast.ParenExpr:
		return s.bits(x.X)
	case *ast.Ident:
		if o := s.info.Uses[x]; o != nil {
			return s.cls[o]
		}
		return 0
	case *ast.SelectorExpr:
		if s.lr {
			if k := isLRSelection(s.info, x); k != 0 {
				return k
			}
		}
		if sel := s.info.Selections[x]; sel != nil && sel.Kind() == types.FieldVal {
			return s.bits(x.X)
		}
		return 0
	case *ast.CallExpr:
		if tv, ok := s.info.Types[x.Fun]; ok && tv.IsType() {
			if len(x.Args) == 1 {
				return s.bits(x.Args[0])
			}
			return 0
		}
		var k uint64
		for _, a := range x.Args {
			k |= s.bits(a)
		}
		if se, ok := ast.Unparen(x.Fun).(*ast.SelectorExpr); ok {
			if sel := s.info.Selections[se]; sel != nil && sel.Kind() == types.MethodVal {
				k |= s.bits(se.X)
			}
		}
		return k
	case *ast.BinaryExpr:
		return s.bits(x.X) | s.bits(x.Y)
	case *ast.UnaryExpr:
		return s.bits(x.X)
	case *ast.StarExpr:
		return s.bits(x.X)
	case *ast.IndexExpr:
		// an arena lookup by handle yields that handle's value
		return s.bits(x.X) | s.bits(x.Index)
	case *ast.SliceExpr:
		return s.bits(x.X)
	case *ast.TypeAssertExpr:
		return s.bits(x.X)
	case *ast.CompositeLit:
		var k uint64
		for _, el := range x.Elts {
			if kv, ok := el.(*ast.KeyValueExpr); ok {
				k |= s.bits(kv.Value)
			} else {
				k |= s.bits(el)
			}
		}
		return k
	case *ast.KeyValueExpr:
		return s.bits(x.Value)
	case *ast.FuncLit:
		return 0
	}
	return 0
}

func (s *taintState) objOf(e ast.Expr) types.Object {
	id, ok := ast.Unparen(e).(*ast.Ident)
	if !ok || id.Name == "_" {
		return nil
	}
	if o := s.info.Defs[id]; o != nil {
		return o
	}
	return s.info.Uses[id]
}

// resultBits: bits of the i-th result of a call (per-result summaries for
// static callees with several results).
func (s *taintState) resultBits(call *ast.CallExpr, i, n int) uint64 {
	if s.c != nil {
		if f := calleeOf(s.info, call); f != nil {
			if sum := s.c.resultSummary(f); sum != nil && len(sum) == n {
				var k uint64
				for j, a := range call.Args {
					if j < 64 && sum[i]&(1<<uint(j)) != 0 {
						k |= s.bits(a)
					}
				}
				if sum[i]&(1<<63) != 0 { // receiver
					if se, ok := ast.Unparen(call.Fun).(*ast.SelectorExpr); ok {
						k |= s.bits(se.X)
					}
				}
				return k
			}
		}
	}
	return s.bits(call)
}

func (s *taintState) propagate() {
	body := s.fn.Decl.Body
	for changed := true; changed; {
		changed = false
		set := func(o types.Object, k uint64) {
			if o == nil || k == 0 {
				return
			}
			v, isVar := o.(*types.Var)
			if !isVar || !carriesValue(v.Type()) {
				return
			}
			if s.cls[o]|k != s.cls[o] {
				s.cls[o] |= k
				changed = true
			}
		}
		assign := func(lhs []ast.Expr, rhs []ast.Expr) {
			for i, l := range lhs {
				var k uint64
				if len(lhs) == len(rhs) {
					k = s.bits(rhs[i])
				} else if len(rhs) == 1 {
					if call, ok := ast.Unparen(rhs[0]).(*ast.CallExpr); ok {
						k = s.resultBits(call, i, len(lhs))
					} else {
						k = s.bits(rhs[0])
					}
				}
				// a store into an element or field taints the whole container
				base := ast.Unparen(l)
				for {
					switch b := base.(type) {
					case *ast.IndexExpr:
						base = ast.Unparen(b.X)
						continue
					case *ast.SelectorExpr:
						if sel := s.info.Selections[b]; sel != nil && sel.Kind() == types.FieldVal {
							base = ast.Unparen(b.X)
							continue
						}
					case *ast.StarExpr:
						base = ast.Unparen(b.X)
						continue
					}
					break
				}
				set(s.objOf(base), k)
			}
		}
		ast.Inspect(body, func(n ast.Node) bool {
			switch x := n.(type) {
			case *ast.AssignStmt:
				assign(x.Lhs, x.Rhs)
			case *ast.RangeStmt:
				k := s.bits(x.X)
				if x.Value != nil {
					set(s.objOf(x.Value), k)
				}
			case *ast.TypeSwitchStmt:
				// `switch v := x.(type)`: the per-clause implicit objects carry x's class
				if as, ok := x.Assign.(*ast.AssignStmt); ok && len(as.Rhs) == 1 {
					k := s.bits(as.Rhs[0])
					for _, cl := range x.Body.List {
						if o := s.info.Implicits[cl]; o != nil {
							set(o, k)
						}
					}
				}
			case *ast.ValueSpec:
				lhs := make([]ast.Expr, len(x.Names))
				for i, nm := range x.Names {
					lhs[i] = nm
				}
				if len(x.Values) > 0 {
					assign(lhs, x.Values)
				}
			}
			return true
		})
	}
}

// resultSummary: for each result of f, a bit set of the parameters (bit j =
// j-th parameter, bit 63 = receiver) it is computed from. nil if unknown.
func (c *Ctx) resultSummary(f *types.Func) []uint64 {
	key := "resultSummary"
	var m map[*types.Func][]uint64
	if v, ok := c.cache[key]; ok {
		m = v.(map[*types.Func][]uint64)
	} else {
		m = map[*types.Func][]uint64{}
		c.cache[key] = m
	}
	f = f.Origin()
	if v, ok := m[f]; ok {
		return v
	}
	m[f] = nil // recursion guard
	fi := c.funcByObj(f)
	if fi == nil || fi.Decl.Body == nil {
		return nil
	}
	sig := f.Type().(*types.Signature)
	nres := sig.Results().Len()
	if nres < 2 || sig.Variadic() {
		return nil
	}
	st := &taintState{fn: fi, info: fi.Pkg.Info, cls: map[types.Object]uint64{}}
	j := 0
	if fi.Decl.Type.Params != nil {
		for _, fl := range fi.Decl.Type.Params.List {
			if len(fl.Names) == 0 {
				j++
				continue
			}
			for _, nm := range fl.Names {
				if o := st.info.Defs[nm]; o != nil && j < 63 {
					st.cls[o] = 1 << uint(j)
				}
				j++
			}
		}
	}
	if fi.Decl.Recv != nil && len(fi.Decl.Recv.List) > 0 && len(fi.Decl.Recv.List[0].Names) > 0 {
		if o := st.info.Defs[fi.Decl.Recv.List[0].Names[0]]; o != nil {
			st.cls[o] = 1 << 63
		}
	}
	st.propagate()
	out := make([]uint64, nres)
	var named []types.Object
	if fi.Decl.Type.Results != nil {
		for _, fl := range fi.Decl.Type.Results.List {
			for _, nm := range fl.Names {
				named = append(named, st.info.Defs[nm])
			}
		}
	}
	okAll := true
	var walk func(n ast.Node) bool
	walk = func(n ast.Node) bool {
		switch x := n.(type) {
		case *ast.FuncLit:
			return false
		case *ast.ReturnStmt:
			switch {
			case len(x.Results) == nres:
				for i, e := range x.Results {
					out[i] |= st.bits(e)
				}
			case len(x.Results) == 0 && len(named) == nres:
				for i, o := range named {
					out[i] |= st.cls[o]
				}
			case len(x.Results) == 1:
				k := st.bits(x.Results[0])
				for i := range out {
					out[i] |= k
				}
			default:
				okAll = false
			}
		}
		return true
	}
	ast.Inspect(fi.Decl.Body, walk)
	if !okAll {
		return nil
	}
	m[f] = out
	return out
}

// orderClasses computes L/R classes of the variables of fn.
func (c *Ctx) orderClasses(fn *funcInfo) *taintState {
	info := fn.Pkg.Info
	st := &taintState{fn: fn, info: info, cls: map[types.Object]uint64{}, lr: true, c: c}
	hasOp := false
	var params []*types.Var
	if fn.Decl.Type.Params != nil {
		for _, f := range fn.Decl.Type.Params.List {
			for _, nm := range f.Names {
				v, ok := info.Defs[nm].(*types.Var)
				if !ok {
					continue
				}
				switch namedName(v.Type()) {
				case "BinaryOperator", "TokenKind":
					hasOp = true
					continue
				}
				params = append(params, v)
			}
		}
	}
	if hasOp {
		for i := 0; i+1 < len(params); i++ {
			if !carriesValue(params[i].Type()) {
				continue
			}
			if types.Identical(params[i].Type(), params[i+1].Type()) {
				// exactly two of that type in a row (a third same-typed parameter makes the roles unclear)
				if i+2 < len(params) && types.Identical(params[i+2].Type(), params[i].Type()) {
					break
				}
				st.cls[params[i]] = 1
				st.cls[params[i+1]] = 2
				break
			}
		}
	}
	if hasOp {
		for _, p := range params {
			switch st.cls[p] {
			case 1:
				st.seedL = p
			case 2:
				st.seedR = p
			}
		}
	} else {
		// no operator parameter: a pair of same-typed parameters named as first / second (arg0ID, arg1ID; left, right)
		var pl, pr *types.Var
		cnt := 0
		for i := 0; i < len(params); i++ {
			for j := i + 1; j < len(params); j++ {
				if carriesValue(params[i].Type()) && types.Identical(params[i].Type(), params[j].Type()) && pairedNames(params[i].Name(), params[j].Name()) {
					pl, pr = params[i], params[j]
					cnt++
				}
			}
		}
		if cnt == 1 {
			// a third member of the family (arg, arg1, arg2 / x0, x1, x2) makes it a list, not a pair
			stem := func(n string) string {
				return strings.Map(func(r rune) rune {
					if r >= '0' && r <= '9' {
						return -1
					}
					return r
				}, n)
			}
			for _, q := range params {
				if q != pl && q != pr && stem(q.Name()) == stem(pl.Name()) {
					cnt = 0
				}
			}
		}
		if cnt == 1 {
			st.cls[pl] = 1
			st.cls[pr] = 2
			st.seedL, st.seedR = pl, pr
		}
	}
	st.propagate()
	return st
}

type orderSite struct {
	Fn    *funcInfo
	Rule  string // order.pair | order.emit
	Kind  string // call | lit | keyed | stmts
	Desc  string // callee or literal type
	Pos   token.Pos
	Rev   bool
	Ord   int
	Exprs string
}

func (s orderSite) construct() string {
	return s.Fn.id() + ":" + s.Kind + ":" + noSpace(s.Desc)
}

var lrFieldNames = [][2]string{{"Left", "Right"}, {"Lhs", "Rhs"}, {"LHS", "RHS"}, {"L", "R"}, {"l", "r"}, {"left", "right"}, {"lhs", "rhs"}}

func calleeDesc(info *types.Info, x *ast.CallExpr) string {
	desc := "?"
	if f := calleeOf(info, x); f != nil {
		desc = f.Name()
		if recv := f.Type().(*types.Signature).Recv(); recv != nil {
			desc = namedName(recv.Type()) + "." + desc
		}
	} else if id, ok := ast.Unparen(x.Fun).(*ast.Ident); ok {
		desc = id.Name
	} else if se, ok := ast.Unparen(x.Fun).(*ast.SelectorExpr); ok {
		desc = se.Sel.Name
	}
	// the first argument that is a named constant or a string literal identifies what is being built
	for _, a := range x.Args {
		switch y := ast.Unparen(a).(type) {
		case *ast.Ident:
			if c, ok := info.Uses[y].(*types.Const); ok {
				return desc + "(" + c.Name() + ")"
			}
		case *ast.SelectorExpr:
			if c, ok := info.Uses[y.Sel].(*types.Const); ok {
				return desc + "(" + c.Name() + ")"
			}
		case *ast.BasicLit:
			if y.Kind == token.STRING {
				return desc + "(" + y.Value + ")"
			}
		}
	}
	return desc
}

// firstStringWritten: the first string literal (or named string constant) passed to a call in the statement list.
func firstStringWritten(info *types.Info, list []ast.Stmt) string {
	out := ""
	for _, s := range list {
		ast.Inspect(s, func(n ast.Node) bool {
			if out != "" {
				return false
			}
			switch x := n.(type) {
			case *ast.FuncLit:
				return false
			case *ast.BlockStmt:
				return false // only the statement heads of this list
			case *ast.CallExpr:
				for _, a := range x.Args {
					switch y := ast.Unparen(a).(type) {
					case *ast.BasicLit:
						if y.Kind == token.STRING && out == "" {
							out = y.Value
						}
					case *ast.Ident:
						if c, ok := info.Uses[y].(*types.Const); ok && out == "" {
							if b, ok := c.Type().Underlying().(*types.Basic); ok && b.Info()&types.IsString != 0 {
								out = c.Name()
							}
						}
					}
				}
			}
			return true
		})
		if out != "" {
			break
		}
	}
	return strings.ReplaceAll(out, " ", "")
}

// emitClass: is stmt a pure emission (call whose results are discarded or only
// error-typed)? Returns the call.
func emissionCall(info *types.Info, s ast.Stmt) *ast.CallExpr {
	onlyErr := func(lhs []ast.Expr) bool {
		for _, l := range lhs {
			id, ok := ast.Unparen(l).(*ast.Ident)
			if !ok {
				return false
			}
			if id.Name == "_" {
				continue
			}
			var o types.Object = info.Defs[id]
			if o == nil {
				o = info.Uses[id]
			}
			if o == nil || namedName(o.Type()) != "error" {
				return false
			}
		}
		return true
	}
	switch x := s.(type) {
	case *ast.ExprStmt:
		if c, ok := ast.Unparen(x.X).(*ast.CallExpr); ok {
			return c
		}
	case *ast.AssignStmt:
		if len(x.Rhs) == 1 && onlyErr(x.Lhs) {
			if c, ok := ast.Unparen(x.Rhs[0]).(*ast.CallExpr); ok {
				return c
			}
		}
	case *ast.IfStmt:
		if x.Init != nil {
			return emissionCall(info, x.Init)
		}
	}
	return nil
}

func (c *Ctx) orderSites(pkgs func(string) bool) []orderSite {
	if v, ok := c.cache["orderSites"]; ok {
		all := v.([]orderSite)
		var out []orderSite
		for _, s := range all {
			if pkgs(s.Fn.Pkg.Rel) {
				out = append(out, s)
			}
		}
		return out
	}
	var out []orderSite
	for _, fn := range c.allFuncs() {
		info := fn.Pkg.Info
		st := c.orderClasses(fn)
		classOf := st.bits
		ord := map[string]int{}
		add := func(rule, kind, desc string, pos token.Pos, rev bool, exprs string) {
			s := orderSite{Fn: fn, Rule: rule, Kind: kind, Desc: desc, Pos: pos, Rev: rev, Exprs: exprs}
			ord[kind+":"+desc]++
			s.Ord = ord[kind+":"+desc]
			out = append(out, s)
		}
		stmtList := func(list []ast.Stmt) {
			firstL, firstR := -1, -1
			var pos token.Pos
			desc := ""
			for i, s := range list {
				call := emissionCall(info, s)
				if call == nil {
					continue
				}
				var k uint64
				for _, a := range call.Args {
					k |= classOf(a)
				}
				switch k {
				case 1:
					if firstL < 0 {
						firstL = i
						if desc == "" {
							desc = calleeDesc(info, call)
						}
					}
				case 2:
					if firstR < 0 {
						firstR = i
						pos = s.Pos()
					}
				}
			}
			if firstL >= 0 && firstR >= 0 {
				if firstR > firstL {
					pos = list[firstL].Pos()
				}
				// only statement lists that print text: the order in which a walker visits the operands is immaterial
				if fs := firstStringWritten(info, list); fs != "" {
					add("order.emit", "stmts", fs, pos, firstR < firstL, "")
				}
			}
		}
		seedL, seedR := st.seedL, st.seedR
		ast.Inspect(fn.Decl.Body, func(n ast.Node) bool {
			switch x := n.(type) {
			case *ast.BlockStmt:
				stmtList(x.List)
			case *ast.CaseClause:
				stmtList(x.Body)
			case *ast.AssignStmt:
				// an operand parameter replaced by a value computed only from the OTHER operand
				if seedL == nil || seedR == nil || len(x.Lhs) != len(x.Rhs) {
					return true
				}
				for i, l := range x.Lhs {
					id, ok := ast.Unparen(l).(*ast.Ident)
					if !ok {
						continue
					}
					o := info.Uses[id]
					k := classOf(x.Rhs[i])
					switch {
					case o == seedR && (k == 1 || k == 2):
						add("order.pair", "cross", seedR.Name(), x.Pos(), k == 1, types.ExprString(x.Rhs[i]))
					case o == seedL && (k == 1 || k == 2):
						add("order.pair", "cross", seedL.Name(), x.Pos(), k == 2, types.ExprString(x.Rhs[i]))
					}
				}
			case *ast.CallExpr:
				if tv, ok := info.Types[x.Fun]; ok && tv.IsType() {
					return true // conversion
				}
				firstL, firstR := -1, -1
				for i, a := range x.Args {
					switch classOf(a) {
					case 1:
						if firstL < 0 {
							firstL = i
						}
					case 2:
						if firstR < 0 {
							firstR = i
						}
					}
				}
				if firstL < 0 || firstR < 0 {
					return true
				}
				if id, ok := ast.Unparen(x.Fun).(*ast.Ident); ok {
					if _, isBuiltin := info.Uses[id].(*types.Builtin); isBuiltin {
						return true // append(list, l, r): operand lists of walkers are unordered
					}
				}
				add("order.pair", "call", calleeDesc(info, x), x.Pos(), firstR < firstL, types.ExprString(x))
			case *ast.CompositeLit:
				tv, ok := info.Types[x]
				if !ok {
					return true
				}
				st, _ := types.Unalias(tv.Type).Underlying().(*types.Struct)
				tname := namedName(tv.Type)
				if tname == "" {
					tname = "struct"
					if _, isSl := types.Unalias(tv.Type).Underlying().(*types.Slice); isSl {
						tname = "slice"
					}
				}
				if st != nil && len(x.Elts) > 0 {
					if _, keyed := x.Elts[0].(*ast.KeyValueExpr); keyed {
						vals := map[string]ast.Expr{}
						for _, e := range x.Elts {
							kv := e.(*ast.KeyValueExpr)
							if id, ok := kv.Key.(*ast.Ident); ok {
								vals[id.Name] = kv.Value
							}
						}
						for _, p := range lrFieldNames {
							lv, rv := vals[p[0]], vals[p[1]]
							if lv == nil || rv == nil {
								continue
							}
							cl, cr := classOf(lv), classOf(rv)
							if (cl == 1 && cr == 2) || (cl == 2 && cr == 1) {
								add("order.pair", "keyed", tname, x.Pos(), cl == 2, types.ExprString(lv)+" | "+types.ExprString(rv))
							}
						}
						return true
					}
				}
				// positional struct literal or array/slice literal
				firstL, firstR := -1, -1
				var parts []string
				for i, e := range x.Elts {
					if kv, ok := e.(*ast.KeyValueExpr); ok {
						e = kv.Value
					}
					parts = append(parts, types.ExprString(e))
					switch classOf(e) {
					case 1:
						if firstL < 0 {
							firstL = i
						}
					case 2:
						if firstR < 0 {
							firstR = i
						}
					}
				}
				if firstL < 0 || firstR < 0 {
					return true
				}
				if sl, ok := types.Unalias(tv.Type).Underlying().(*types.Slice); ok && strings.HasSuffix(namedName(sl.Elem()), "Handle") {
					return true // []ExpressionHandle{l, r}: operand lists of walkers are unordered
				}
				add("order.pair", "lit", tname, x.Pos(), firstR < firstL, strings.Join(parts, ", "))
			}
			return true
		})
	}
	sort.SliceStable(out, func(i, j int) bool { return out[i].construct() < out[j].construct() })
	c.cache["orderSites"] = out
	return c.orderSites(pkgs)
}

// orderMirrored: constructs in which operands are mirrored on purpose, with the
// number of mirrored sites expected there (every other construct: none).
type mirrorSpec struct {
	N      int
	Reason string
}

var orderMirrored = map[string]mirrorSpec{
	"spirv/internal/codegen.ExpressionEmitter.emitBinary:call:ModuleBuilder.AddBinaryOp(OpMatrixTimesScalar)": {1, "OpMatrixTimesScalar takes (matrix, scalar): the scalar * matrix arm passes (right, left); the matrix * scalar arm passes them directly"},
	"spirv/internal/codegen.ExpressionEmitter.emitBinary:call:ModuleBuilder.AddBinaryOp(OpVectorTimesScalar)": {1, "OpVectorTimesScalar takes (vector, scalar): the scalar * vector arm passes (right, left); multiplication by a scalar is commutative"},
	`hlsl/internal/codegen.Writer.writeBinaryExpression:stmts:"mul("`:                                           {2, "HLSL matrices are emitted row_major (transposed), so WGSL left * right is mul(right, left) - both the plain and the asint/asuint-wrapped path"},
}

func (c *Ctx) runOperandOrder(r *Report, family string, pkgs func(string) bool) {
	type grp struct {
		rule            string
		direct, mirror  int
		pos             string
		mirrorPos, expr []string
		fn              *funcInfo
		kind            string
	}
	groups := map[string]*grp{}
	var keys []string
	for _, s := range c.orderSites(pkgs) {
		cons := s.construct()
		g := groups[cons]
		if g == nil {
			g = &grp{rule: s.Rule, pos: c.pos(s.Pos), fn: s.Fn, kind: s.Kind}
			groups[cons] = g
			keys = append(keys, cons)
		}
		if s.Rev {
			g.mirror++
			g.mirrorPos = append(g.mirrorPos, c.pos(s.Pos))
			e := s.Exprs
			if len(e) > 120 {
				e = e[:120] + "…"
			}
			g.expr = append(g.expr, e)
		} else {
			g.direct++
		}
	}
	sort.Strings(keys)
	n := 0
	for _, cons := range keys {
		g := groups[cons]
		n += g.direct + g.mirror
		spec, isExc := orderMirrored[cons]
		switch {
		case g.mirror == spec.N && !isExc:
			r.ok(g.rule, cons, g.pos, "")
		case g.mirror == spec.N:
			r.exc(g.rule, cons, strings.Join(g.mirrorPos, ","), spec.Reason)
		case g.mirror < spec.N:
			r.viol(g.rule, cons, g.pos, g.fn.id()+": "+itoa(spec.N)+" site(s) of this construct must mirror the operands ("+spec.Reason+") but only "+itoa(g.mirror)+" do: the operands of the remaining site are no longer in the order the target requires")
		default:
			what := "passes a value derived only from the right operand before the one derived only from the left operand"
			if g.kind == "keyed" {
				what = "stores the right-derived value in the left field and the left-derived value in the right field"
			} else if g.kind == "stmts" {
				what = "emits the right operand before the left operand"
			}
			r.viol(g.rule, cons, strings.Join(g.mirrorPos, ","), g.fn.id()+" "+what+" at "+itoa(g.mirror)+" site(s), "+itoa(spec.N)+" expected ("+strings.Join(g.expr, " ; ")+"): every non-commutative operator computes `right op left`")
		}
	}
	// a mirrored-on-purpose construct that no longer exists is reported as shrunk coverage only
	r.inst(family, n)
}

func init() {
	dumpers["order"] = func(c *Ctx, parts []string) {
		n, rev := 0, 0
		for _, s := range c.orderSites(func(string) bool { return true }) {
			n++
			mark := "   "
			if s.Rev {
				mark = "REV"
				rev++
			}
			e := s.Exprs
			if len(e) > 150 {
				e = e[:150]
			}
			println(mark, s.Rule, s.construct(), c.pos(s.Pos), strings.ReplaceAll(e, "\n", " "))
			_ = s.Ord
		}
		println("sites", n, "reversed", rev)
	}
}

func init() {
	dumpers["orderfn"] = func(c *Ctx, parts []string) {
		for _, fn := range c.allFuncs() {
			if fn.id() != parts[1] {
				continue
			}
			st := c.orderClasses(fn)
			for o, k := range st.cls {
				println(o.Name(), k, c.pos(o.Pos()))
			}
			if fn.Obj != nil {
				for i, s := range c.resultSummary(fn.Obj) {
					println("result", i, s)
				}
			}
		}
	}
}
