package main

// resolution.siblings (C03-C05, C01, C09): an expression's type reaches the
// backends as an ir.TypeResolution - either a handle into Module.Types or an
// inline TypeInner value (computed types: swizzles, arithmetic, conversions).
// Code that branches on the two forms of ONE resolution (`if r.Value != nil
// {...} else if r.Handle != nil {...}`, in either order) and inspects the type
// in both branches must recognise the same type shapes in both: a shape handled
// only for the handle form is silently mistreated for every expression whose
// type is inline (e.g. v.xy, a + b), and vice versa.

import (
	"go/ast"
	"go/token"
	"go/types"
	"sort"
	"strings"
)

// resolutionFieldTest: cond is `X.Value != nil` / `X.Handle != nil` (possibly the first conjunct) on a TypeResolution X.
func resolutionFieldTest(info *types.Info, cond ast.Expr) (x string, field string) {
	cond = ast.Unparen(cond)
	if be, ok := cond.(*ast.BinaryExpr); ok && be.Op == token.LAND {
		if a, f := resolutionFieldTest(info, be.X); a != "" {
			return a, f
		}
		return resolutionFieldTest(info, be.Y)
	}
	be, ok := cond.(*ast.BinaryExpr)
	if !ok || be.Op != token.NEQ {
		return "", ""
	}
	if id, ok := ast.Unparen(be.Y).(*ast.Ident); !ok || id.Name != "nil" {
		return "", ""
	}
	se, ok := ast.Unparen(be.X).(*ast.SelectorExpr)
	if !ok || (se.Sel.Name != "Value" && se.Sel.Name != "Handle") {
		return "", ""
	}
	tv, ok := info.Types[se.X]
	if !ok {
		return "", ""
	}
	t := tv.Type
	if p, ok := t.Underlying().(*types.Pointer); ok {
		t = p.Elem()
	}
	if irTypeName(t) != "TypeResolution" {
		return "", ""
	}
	return types.ExprString(se.X), se.Sel.Name
}

// shapesIn: ir TypeInner variants named in type assertions / type-switch cases of the node.
func shapesIn(info *types.Info, sums map[string]*sumType, n ast.Node) []string {
	set := map[string]bool{}
	inner := sums["TypeInner"]
	add := func(e ast.Expr) {
		if e == nil {
			return
		}
		if tv, ok := info.Types[e]; ok {
			if nm := irTypeName(tv.Type); nm != "" && inner != nil && inner.has(nm) {
				set[nm] = true
			}
		}
	}
	ast.Inspect(n, func(m ast.Node) bool {
		switch x := m.(type) {
		case *ast.FuncLit:
			return false
		case *ast.TypeAssertExpr:
			add(x.Type)
		case *ast.CaseClause:
			for _, l := range x.List {
				add(l)
			}
		}
		return true
	})
	var out []string
	for k := range set {
		out = append(out, k)
	}
	sort.Strings(out)
	return out
}

func (c *Ctx) runResolutionSiblings(r *Report, rule string, pkgs func(string) bool, exceptions map[string]string) {
	sums := c.sumTypes("ir")
	n := 0
	for _, fn := range c.allFuncs() {
		if !pkgs(fn.Pkg.Rel) {
			continue
		}
		info := fn.Pkg.Info
		ord := 0
		ast.Inspect(fn.Decl.Body, func(m ast.Node) bool {
			ifs, ok := m.(*ast.IfStmt)
			if !ok {
				return true
			}
			x1, f1 := resolutionFieldTest(info, ifs.Cond)
			if x1 == "" {
				return true
			}
			els, ok := ifs.Else.(*ast.IfStmt)
			var otherBody ast.Node
			if ok {
				x2, f2 := resolutionFieldTest(info, els.Cond)
				if x2 != x1 || f2 == f1 {
					return true
				}
				otherBody = els.Body
			} else if blk, ok := ifs.Else.(*ast.BlockStmt); ok {
				otherBody = blk
			} else {
				return true
			}
			a := shapesIn(info, sums, ifs.Body)
			b := shapesIn(info, sums, otherBody)
			if len(a) == 0 || len(b) == 0 {
				return true // one side does not inspect the shape (delegates, or resolves the handle first)
			}
			n++
			ord++
			cons := fn.id() + ":" + x1
			if ord > 1 {
				cons += "#" + itoa(ord)
			}
			pos := c.pos(ifs.Pos())
			if strings.Join(a, ",") == strings.Join(b, ",") {
				r.ok(rule, cons, pos, "")
			} else if reason, ok := exceptions[cons]; ok {
				r.exc(rule, cons, pos, reason)
			} else {
				r.viol(rule, cons, pos, fn.id()+" inspects the two forms of the type resolution "+x1+" differently: the "+f1+" branch recognises ["+strings.Join(a, ",")+"], the other branch ["+strings.Join(b, ",")+"] - a type shape handled for one form only is mistreated for expressions whose type arrives in the other form")
			}
			return true
		})
	}
	r.inst("resolution.siblings", n)
}

func init() {
	dumpers["resolution"] = func(c *Ctx, parts []string) {
		r := newReport("dump")
		c.runResolutionSiblings(r, "resolution.siblings", func(string) bool { return true }, nil)
		for _, o := range r.Obs {
			println(o.Verdict, o.Construct, o.Pos, o.Msg)
		}
	}
}
