package main

import (
	"go/ast"
	"go/types"
)

// attr.aliasclosure (C08): the lowerer keeps per-name attribute tables
// (map[string]bool fields: "this let holds a pointer"). Where an entry is set
// at a declaration under a test of the syntactic kind of the initialiser only
// (`decl.Init.(*parser.UnaryExpr)` - it is spelled `&expr`), a declaration
// whose initialiser is just the name of such a binding (`let q = p`) does not
// inherit the attribute, and every later use of q is treated as a use of a
// non-pointer (loaded; a valid call `f(q)` is rejected). The function that
// sets the entry under a syntactic test of the initialiser must also read the
// same table (for the initialiser that is an identifier).
func (c *Ctx) runAliasClosure(r *Report, rule, rel string) {
	n := 0
	for _, fn := range c.allFuncs() {
		if fn.Pkg.Rel != rel || fn.Decl.Body == nil {
			continue
		}
		info := fn.Pkg.Info
		tableOf := func(e ast.Expr) *types.Var {
			ix, ok := ast.Unparen(e).(*ast.IndexExpr)
			if !ok {
				return nil
			}
			sel, ok := ast.Unparen(ix.X).(*ast.SelectorExpr)
			if !ok {
				return nil
			}
			v, ok := info.ObjectOf(sel.Sel).(*types.Var)
			if !ok || !v.IsField() {
				return nil
			}
			m, ok := v.Type().Underlying().(*types.Map)
			if !ok || !isStringType(m.Key()) || !isBoolType(m.Elem()) {
				return nil
			}
			return v
		}
		// sets of T[...] = true that sit under a type assertion / type switch on a parser expression
		type site struct {
			v   *types.Var
			pos ast.Node
		}
		var sites []site
		var walk func(node ast.Node, underSyntax bool)
		walk = func(node ast.Node, underSyntax bool) {
			ast.Inspect(node, func(m ast.Node) bool {
				if m == nil || m == node {
					return true
				}
				switch x := m.(type) {
				case *ast.IfStmt:
					syn := underSyntax
					if as, ok := x.Init.(*ast.AssignStmt); ok && len(as.Rhs) == 1 {
						if ta, ok := ast.Unparen(as.Rhs[0]).(*ast.TypeAssertExpr); ok && ta.Type != nil && isParserExprNode(info.TypeOf(ta.X)) {
							syn = true
						}
					}
					walk(x.Body, syn)
					if x.Else != nil {
						walk(x.Else, underSyntax)
					}
					return false
				case *ast.TypeSwitchStmt:
					syn := underSyntax
					var subj ast.Expr
					switch a := x.Assign.(type) {
					case *ast.AssignStmt:
						if ta, ok := ast.Unparen(a.Rhs[0]).(*ast.TypeAssertExpr); ok {
							subj = ta.X
						}
					case *ast.ExprStmt:
						if ta, ok := ast.Unparen(a.X).(*ast.TypeAssertExpr); ok {
							subj = ta.X
						}
					}
					if subj != nil && isParserExprNode(info.TypeOf(subj)) {
						syn = true
					}
					walk(x.Body, syn)
					return false
				case *ast.AssignStmt:
					if !underSyntax || len(x.Lhs) != 1 || len(x.Rhs) != 1 {
						return true
					}
					if id, ok := ast.Unparen(x.Rhs[0]).(*ast.Ident); !ok || id.Name != "true" {
						return true
					}
					if v := tableOf(x.Lhs[0]); v != nil {
						sites = append(sites, site{v, x})
					}
				}
				return true
			})
		}
		walk(fn.Decl.Body, false)
		seen := map[*types.Var]bool{}
		for _, s := range sites {
			if seen[s.v] {
				continue
			}
			seen[s.v] = true
			n++
			cons := fn.id() + ":" + s.v.Name()
			reads := false
			ast.Inspect(fn.Decl.Body, func(m ast.Node) bool {
				switch x := m.(type) {
				case *ast.AssignStmt:
					// a set is not a read; look at the right-hand sides only
					for _, rhs := range x.Rhs {
						ast.Inspect(rhs, func(k ast.Node) bool {
							if e, ok := k.(ast.Expr); ok && tableOf(e) == s.v {
								reads = true
							}
							return true
						})
					}
					for _, lhs := range x.Lhs {
						if ix, ok := ast.Unparen(lhs).(*ast.IndexExpr); ok {
							ast.Inspect(ix.Index, func(k ast.Node) bool {
								if e, ok := k.(ast.Expr); ok && tableOf(e) == s.v {
									reads = true
								}
								return true
							})
						}
					}
					return false
				case ast.Expr:
					if tableOf(x) == s.v {
						reads = true
					}
				}
				return true
			})
			if reads {
				r.ok(rule, cons, c.pos(s.pos.Pos()), "")
			} else {
				r.viol(rule, cons, c.pos(s.pos.Pos()), fn.id()+" gives a declared name the attribute "+s.v.Name()+" only when its initialiser has a certain spelling and never consults "+s.v.Name()+" for an initialiser that is itself a name: a copy of such a binding (`let q = p`) loses the attribute")
			}
		}
	}
	r.inst(rule, n)
}

func isParserExprNode(t types.Type) bool {
	if t == nil {
		return false
	}
	n := namedOf(t)
	return n != nil && n.Obj().Pkg() != nil && relPkg(n.Obj().Pkg().Path()) == "wgsl/internal/parser" && n.Obj().Name() == "Expr"
}

func init() {
	dumpers["aliasclosure"] = func(c *Ctx, parts []string) {
		r := newReport("dump")
		c.runAliasClosure(r, "attr.aliasclosure", "wgsl/internal/lower")
		for _, o := range r.Obs {
			println(o.Verdict, o.Construct, o.Pos)
		}
	}
}
