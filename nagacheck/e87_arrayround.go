package main

import (
	"go/ast"
	"go/token"
	"go/types"
)

// layout.arrayround (C07): the size of array<E, N> is N * stride with
// stride = roundUp(alignOf(E), sizeOf(E)): every element is padded, not the
// array as a whole. In the arm for ir.ArrayType of a layout function the
// round-up idiom ((x + a - 1) &^ (a - 1)) must therefore be applied to the
// element size before the multiplication by the element count; a round-up
// whose operand already contains the count (a variable multiplied by
// *Size.Constant, or the product itself) pads the array once:
// array<vec3<f32>, 4> gets 48 bytes instead of 64.
func (c *Ctx) runArrayRound(r *Report, rule string, inPkg func(string) bool) {
	n := 0
	for _, fn := range c.allFuncs() {
		if !inPkg(fn.Pkg.Rel) || fn.Obj == nil || fn.Decl.Body == nil {
			continue
		}
		info := fn.Pkg.Info
		ast.Inspect(fn.Decl.Body, func(m ast.Node) bool {
			cc, ok := m.(*ast.CaseClause)
			if !ok {
				return true
			}
			isArray := false
			for _, e := range cc.List {
				if t, ok := info.Types[e]; ok && irTypeName(derefType(t.Type)) == "ArrayType" {
					isArray = true
				}
			}
			if !isArray {
				return true
			}
			mentionsCount := func(e ast.Node) bool {
				found := false
				ast.Inspect(e, func(k ast.Node) bool {
					if se, ok := k.(*ast.SelectorExpr); ok && se.Sel.Name == "Constant" {
						if in, ok := se.X.(*ast.SelectorExpr); ok && in.Sel.Name == "Size" {
							found = true
						}
					}
					return true
				})
				return found
			}
			// variables that hold something multiplied by the count
			timesCount := map[types.Object]bool{}
			for pass := 0; pass < 2; pass++ {
				ast.Inspect(cc, func(k ast.Node) bool {
					as, ok := k.(*ast.AssignStmt)
					if !ok || len(as.Lhs) != 1 || len(as.Rhs) != 1 {
						return true
					}
					id, ok := as.Lhs[0].(*ast.Ident)
					if !ok {
						return true
					}
					o := info.ObjectOf(id)
					isMul := as.Tok == token.MUL_ASSIGN
					if be, ok := ast.Unparen(as.Rhs[0]).(*ast.BinaryExpr); ok && be.Op == token.MUL {
						isMul = true
					}
					if isMul && (mentionsCount(as.Rhs[0]) || mentionsObjs(info, as.Rhs[0], timesCount)) {
						timesCount[o] = true
					}
					return true
				})
			}
			// round-up idioms: X &^ (a - 1)  with X = (v + a - 1)
			idioms := 0
			bad := token.NoPos
			ast.Inspect(cc, func(k ast.Node) bool {
				be, ok := k.(*ast.BinaryExpr)
				if !ok || be.Op != token.AND_NOT {
					return true
				}
				idioms++
				if mentionsObjs(info, be.X, timesCount) || (mentionsCount(be.X) && containsMul(be.X)) {
					bad = be.Pos()
				}
				return true
			})
			if idioms == 0 {
				return true
			}
			n++
			cons := fn.id() + ":ArrayType:roundup"
			if bad.IsValid() {
				r.viol(rule, cons, c.pos(bad), fn.id()+" rounds up a size that already contains the element count: the padding is applied once to the whole array instead of to every element (array<vec3<f32>, 4> = 48 instead of 64 bytes)")
			} else {
				r.ok(rule, cons, c.pos(cc.Pos()), "")
			}
			return true
		})
	}
	r.inst(rule, n)
}

func mentionsObjs(info *types.Info, e ast.Node, set map[types.Object]bool) bool {
	found := false
	ast.Inspect(e, func(k ast.Node) bool {
		if id, ok := k.(*ast.Ident); ok && set[info.ObjectOf(id)] {
			found = true
		}
		return true
	})
	return found
}

func containsMul(e ast.Node) bool {
	found := false
	ast.Inspect(e, func(k ast.Node) bool {
		if be, ok := k.(*ast.BinaryExpr); ok && be.Op == token.MUL {
			found = true
		}
		return true
	})
	return found
}

func init() {
	dumpers["arrayround"] = func(c *Ctx, parts []string) {
		r := newReport("dump")
		c.runArrayRound(r, "layout.arrayround", func(string) bool { return true })
		for _, o := range r.Obs {
			println(o.Verdict, o.Construct, o.Pos)
		}
	}
}
