package main

import "strings"

var setterExceptions = map[string]string{
	"msl/internal/codegen.Writer.writeEntryPointInputStruct:hasVaryings": "reset to false in writeEntryPoint's prologue (and on its early-exit path) before this function is called; the remaining path keeps that false",
}

func init() { register("C17", propC17) }

const wgslNamesClause = "frontend keyword tables (E18): every entry of the lowerer's map[string]ir.<Enum> literals (builtin values, address spaces, texel formats, math builtins) maps a WGSL word to the IR constant named by the same word (case, underscores and the enum prefix aside)"

var literalRawParseExceptions = map[string]string{
	"wgsl/internal/lower.Lowerer.tryConstantArrayIndex:radix:Atoi": "fast path of an optimisation: when Atoi fails on a hexadecimal index the function declines (ok=false) and the caller lowers the index expression through the general path",
	"wgsl/internal/lower.Lowerer.evalConstU32Expr:strconv.ParseUint": "fallback reached only after the constant-expression evaluator (which parses suffixed and hexadecimal literals) has declined the expression",
	"wgsl/internal/lower.Lowerer.evalConstU32Expr:strconv.ParseInt":  "fallback reached only after the constant-expression evaluator has declined the expression",
	"wgsl/internal/lower.Lowerer.tryConstantArrayIndex:strconv.Atoi":  "fast path of an optimisation: when the parse fails the function declines (ok=false) and the caller lowers the index expression through the general path, which handles suffixed and hexadecimal literals",
}

func propC17(c *Ctx, r *Report) {
	r.Clauses = append(r.Clauses,
		"total setters (E7, go/cfg must-assign): a backend method that computes per-entry-point binding state into a receiver field on two or more result-like paths (assign-then-return) assigns it on every non-error path, so no entry point is emitted with the slot map / interface state left by the previous one")
	r.NotDecided = append(r.NotDecided,
		"that decoration operands, registers, slots and layout qualifiers carry the right numbers (the words are checked, the numbers are not); exactness of interface lists; truthfulness of reflection structs")
	c.runPartialSetters(r, "setter.total", "setters", inPkgs("msl/internal/codegen", "glsl/internal/codegen", "hlsl/internal/codegen", "spirv/internal/codegen", "msl", "glsl", "hlsl", "spirv"), setterExceptions)
	r.Clauses = append(r.Clauses, "block recursion (E3): the statement walkers of the four backends that collect the globals / calls an entry point uses (interface lists, per-entry-point resource sets) descend into every nested block")
	c.runBlockWalkers(r, "operands", "backends", inPkgs("spirv/internal/codegen", "msl/internal/codegen", "hlsl/internal/codegen", "glsl/internal/codegen"), nil)
	r.Clauses = append(r.Clauses, enumMapClause)
	c.runInterfaceEnumTables(r, "spirv", "hlsl", "msl", "glsl")
	r.Clauses = append(r.Clauses, "literal text (E10): no strconv.Parse* / Atoi / fmt.Sscan* call in the frontend receives the raw Value text of a parser.Literal (which keeps the WGSL suffix and may be hexadecimal); numeric text goes through the lowerer's literal parsers, so @workgroup_size(64u), @align(0x10), @id(3u) and suffixed override defaults are not silently replaced by defaults")
	c.runLiteralRawParse(r, "literal.rawparse", inPkgs("wgsl"), literalRawParseExceptions)
	r.floor("literal.parses", 25)
	r.Clauses = append(r.Clauses, wgslNamesClause)
	c.runWGSLNameTables(r, "names.wgsltable", "wgsl/internal/lower")
	r.floor("names.wgsltable", 100)
	r.Clauses = append(r.Clauses, guardAgreeClause)
	c.runGuardAgree(r, "guard.agree", inPkgs("msl", "hlsl", "glsl", "spirv"))
	r.floor("guard.agree", 4)
	r.Clauses = append(r.Clauses, accumClause)
	c.runAccumLazyInit(r, "accum.lazyinit", func(string) bool { return true })
	r.floor("accum.lazyinit", 4)
	r.Clauses = append(r.Clauses, "binding attributes reach every backend (E44): each field of ir.BuiltinBinding / LocationBinding / Interpolation / ResourceBinding is read somewhere in each of the SPIR-V, HLSL, MSL and GLSL backends")
	c.runBindingFieldRead(r, "binding.fieldread", []string{"spirv", "hlsl", "msl", "glsl"}, nil)
	r.floor("binding.fieldread", 30)
	r.Clauses = append(r.Clauses, silentDefaultClause)
	c.runSilentDefault(r, "eval.silentdefault", "wgsl/internal/lower", nil)
	r.floor("eval.silentdefault", 6)
	r.Clauses = append(r.Clauses, builtinDirClause)
	c.runBuiltinDirection(r, "builtin.direction", inPkgs("spirv", "hlsl", "msl", "glsl", "dxil"))
	r.floor("builtin.direction", 2)
	r.Clauses = append(r.Clauses, "one numbering per flattened list (E90): where a backend appends to one list in several places and numbers the elements by len(list) in one of them, no other append to that list numbers its element by the key of an outer loop over something else - the later ordering by that number (the HLSL entry-point input struct restores argument order with it) would interleave the members of neighbouring parameters")
	c.runMixedBasis(r, "index.mixedbasis", inPkgs("hlsl/internal/codegen", "msl/internal/codegen", "glsl/internal/codegen", "spirv/internal/codegen", "dxil/internal/emit"))
	r.Clauses = append(r.Clauses, missReportedClause)
	c.runMissReported(r, "bindmap.missreported", "hlsl/internal/codegen")
	r.floor("bindmap.missreported", 1)
	r.Clauses = append(r.Clauses, epSelectClause+" - the reflection data (texture-sampler pairs, entry-point names) is collected by such loops")
	c.runEPSelectAgree(r, "epselect.agree", "glsl/internal/codegen")
	r.floor("epselect.agree", 1)
	r.Clauses = append(r.Clauses, nameDefaultClause)
	c.runNameSilentDefault(r, "name.silentdefault", "wgsl/internal/lower", nil)
	r.floor("name.silentdefault", 1)
	r.Clauses = append(r.Clauses, sameSliceClause)
	c.runBoundsSameSlice(r, "bounds.sameslice", inPkgs("hlsl", "msl", "glsl", "spirv"))
	r.floor("bounds.sameslice", 100)
	r.Clauses = append(r.Clauses, optionReadClause+" - binding maps, binding bases, entry-point selection and the other interface options")
	for _, p := range []string{"spirv/internal/codegen", "msl/internal/codegen", "hlsl/internal/codegen", "glsl/internal/codegen"} {
		c.runOptionRead(r, "option.read", p, func(f string) bool {
			for _, w := range []string{"Binding", "EntryPoint", "Resource", "Sampler", "PushConstant", "SpecialConstants", "Interface", "Location", "Vertex", "Sizes", "PointSize", "Inline"} {
				if strings.Contains(f, w) {
					return true
				}
			}
			return false
		}, optionReadExceptions)
	}
	r.floor("option.read", 10)
	r.floor("backends.Block.walkers", 10)
	r.floor("setters", 2)
}

const accumClause = "order-independent accumulation (E29): a variable created lazily (`if v == nil { v = ... }`) inside a loop over attributes / items collects fields from several iterations; no other assignment inside that loop replaces it unconditionally, so @interpolate / @blend_src / @binding survive whatever order the attributes are written in"

const builtinDirClause = "two-way built-ins (E59): a function that names built-in values for a target and is told the direction (a bool next to the ir.BuiltinValue) consults it in the arms for position and sample_mask - the two WGSL built-ins that are an input at one stage position and an output at another - whenever it consults it for any built-in at all"

const silentDefaultClause = "no silent default (E72): where the lowerer evaluates a piece of source syntax (a function taking a parser.Expr and answering (value, ok)) and uses the value only when ok, there is an else branch, or the same syntax is afterwards handed to another function (a fallback) - otherwise what the source says is silently replaced by the default"

const missReportedClause = "missing bindings are reported (E100): every HLSL writer function that determines a BindTarget and consults FakeMissingBindings raises ErrMissingBinding (itself or through a callee) - the option's documentation promises that error for a resource without a map entry; the zero target puts all unmapped resources on register 0 of space 0"
