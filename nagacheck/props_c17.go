package main

var setterExceptions = map[string]string{
	"msl/internal/codegen.Writer.writeEntryPointInputStruct:hasVaryings": "reset to false in writeEntryPoint's prologue (and on its early-exit path) before this function is called; the remaining path keeps that false",
}

func init() { register("C17", propC17) }

func propC17(c *Ctx, r *Report) {
	r.Clauses = append(r.Clauses,
		"total setters (E7, go/cfg must-assign): a backend method that computes per-entry-point binding state into a receiver field on two or more result-like paths (assign-then-return) assigns it on every non-error path, so no entry point is emitted with the slot map / interface state left by the previous one")
	r.NotDecided = append(r.NotDecided,
		"that decoration operands, registers, slots and layout qualifiers carry the right numbers; exactness of interface lists; truthfulness of reflection structs")
	c.runPartialSetters(r, "setter.total", "setters", inPkgs("msl/internal/codegen", "glsl/internal/codegen", "hlsl/internal/codegen", "spirv/internal/codegen", "msl", "glsl", "hlsl", "spirv"), setterExceptions)
	r.floor("setters", 2)
}
