package main

// abort.argindex (C10): indexing of input-length-controlled slices.
//
// The argument list of a WGSL call, the components of a constructor, the
// statements of a block ... reach the lowerer as slices of parser nodes whose
// LENGTH IS CHOSEN BY THE SOURCE TEXT. An index expression S[e] on such a
// slice (element type declared in the parser package) with a constant index or
// a local integer variable (+- constant) panics for some source unless the
// code has established e < len(S) on every path that reaches it.
//
// The rule proves that with a small forward dataflow analysis over go/cfg
// (a zone-style domain, lower bounds only):
//   minLen[S]      lower bound of len(S)
//   diff[S,v]      lower bound of len(S) - v          (v a local int variable)
//   hi[v]          upper bound of v (constants only)
//   alias[n]=(S,c) n == len(S)+c  (n := len(S))
// Facts come from branch conditions (len(S) < 4 -> return; i < len(S);
// switch len(S) { case 2: }), range loops (for i := range S), constant
// assignments and increments; they are killed by any other assignment to the
// variable or to (a prefix of) the slice path; joins take the weaker bound;
// after a bounded number of visits a block's decreasing facts are dropped
// (widening). Variables assigned inside a closure or whose address is taken
// are never tracked. A site that is not proven in bounds is a violation.

import (
	"go/ast"
	"go/constant"
	"go/token"
	"go/types"
	"sort"
	"strings"

	"golang.org/x/tools/go/cfg"
)

const zNegInf = -1 << 30

type zstate struct {
	minLen map[string]int
	maxLen map[string]int // upper bound of len(S) (absent = unknown)
	diff   map[string]int // key S + "|" + v
	hi     map[string]int
	lo     map[string]int
	alias  map[string]zalias
	dead   bool
}

type zalias struct {
	S string
	C int
}

func newZ() *zstate {
	return &zstate{minLen: map[string]int{}, maxLen: map[string]int{}, diff: map[string]int{}, hi: map[string]int{}, lo: map[string]int{}, alias: map[string]zalias{}}
}

func (z *zstate) clone() *zstate {
	n := newZ()
	n.dead = z.dead
	for k, v := range z.minLen {
		n.minLen[k] = v
	}
	for k, v := range z.diff {
		n.diff[k] = v
	}
	for k, v := range z.maxLen {
		n.maxLen[k] = v
	}
	for k, v := range z.hi {
		n.hi[k] = v
	}
	for k, v := range z.lo {
		n.lo[k] = v
	}
	for k, v := range z.alias {
		n.alias[k] = v
	}
	return n
}

// join: weaker of two states (in place into z); returns whether z changed.
func (z *zstate) join(o *zstate) bool {
	if o.dead {
		return false
	}
	if z.dead {
		*z = *o.clone()
		return true
	}
	ch := false
	for k, v := range z.minLen {
		ov, ok := o.minLen[k]
		if !ok {
			delete(z.minLen, k)
			ch = true
		} else if ov < v {
			z.minLen[k] = ov
			ch = true
		}
	}
	for k, v := range z.diff {
		ov, ok := o.diff[k]
		if !ok {
			delete(z.diff, k)
			ch = true
		} else if ov < v {
			z.diff[k] = ov
			ch = true
		}
	}
	for k, v := range z.hi {
		ov, ok := o.hi[k]
		if !ok {
			delete(z.hi, k)
			ch = true
		} else if ov > v {
			z.hi[k] = ov
			ch = true
		}
	}
	for k, v := range z.maxLen {
		ov, ok := o.maxLen[k]
		if !ok {
			delete(z.maxLen, k)
			ch = true
		} else if ov > v {
			z.maxLen[k] = ov
			ch = true
		}
	}
	for k, v := range z.lo {
		ov, ok := o.lo[k]
		if !ok {
			delete(z.lo, k)
			ch = true
		} else if ov < v {
			z.lo[k] = ov
			ch = true
		}
	}
	for k, v := range z.alias {
		if ov, ok := o.alias[k]; !ok || ov != v {
			delete(z.alias, k)
			ch = true
		}
	}
	return ch
}

// materialize turns the constant bounds into relational facts so that they survive joins.
func (z *zstate) materialize() {
	for v, h := range z.hi {
		for sp, ml := range z.minLen {
			k := sp + "|" + v
			if cur, ok := z.diff[k]; !ok || ml-h > cur {
				z.diff[k] = ml - h
			}
		}
	}
}

type zfunc struct {
	c       *Ctx
	info    *types.Info
	untrack map[types.Object]bool // vars assigned in closures / address taken
	caseTag map[ast.Expr]ast.Expr // case label expr -> switch tag
	calls   map[*ast.CallExpr]map[string]int // call site -> "<param index><suffix>" -> minLen fact of the argument
	callee  map[*ast.CallExpr]*types.Func
}

// recordCalls notes, for every static call in n, the length facts of its arguments.
func (f *zfunc) recordCalls(z *zstate, n ast.Node) {
	ast.Inspect(n, func(m ast.Node) bool {
		switch x := m.(type) {
		case *ast.FuncLit:
			return false
		case *ast.CallExpr:
			fn := calleeOf(f.info, x)
			if fn == nil || fn.Pkg() == nil || !strings.HasPrefix(fn.Pkg().Path(), modPath) {
				return true
			}
			facts := map[string]int{}
			for i, a := range x.Args {
				tv, ok := f.info.Types[a]
				if !ok {
					continue
				}
				if isParserElemSlice(tv.Type) {
					facts[itoa(i)] = f.minLenOf(z, a)
					continue
				}
				if p, ok := f.slicePath(a); ok {
					for k, v := range z.minLen {
						if strings.HasPrefix(k, p+".") {
							facts[itoa(i)+strings.TrimPrefix(k, p)] = v
						}
					}
				}
			}
			if z.dead {
				return true
			}
			f.calls[x] = facts
			f.callee[x] = fn.Origin()
		}
		return true
	})
}

func (f *zfunc) varKey(e ast.Expr) (string, bool) {
	id, ok := ast.Unparen(e).(*ast.Ident)
	if !ok || id.Name == "_" {
		return "", false
	}
	o := f.info.Uses[id]
	if o == nil {
		o = f.info.Defs[id]
	}
	v, ok := o.(*types.Var)
	if !ok || v.IsField() || f.untrack[o] {
		return "", false
	}
	if b, ok := v.Type().Underlying().(*types.Basic); !ok || b.Info()&types.IsInteger == 0 {
		return "", false
	}
	if v.Pkg() != nil && v.Parent() == v.Pkg().Scope() {
		return "", false // package-level variable
	}
	return id.Name + "@" + f.c.pos(v.Pos()), true
}

// slicePath: canonical key of a slice-valued path expression (ident or field selections on idents).
func (f *zfunc) slicePath(e ast.Expr) (string, bool) {
	e = ast.Unparen(e)
	switch x := e.(type) {
	case *ast.Ident:
		o := f.info.Uses[x]
		if o == nil {
			o = f.info.Defs[x]
		}
		if _, ok := o.(*types.Var); !ok {
			return "", false
		}
		return x.Name + "@" + f.c.pos(o.Pos()), true
	case *ast.SelectorExpr:
		if sel := f.info.Selections[x]; sel == nil || sel.Kind() != types.FieldVal {
			return "", false
		}
		p, ok := f.slicePath(x.X)
		if !ok {
			return "", false
		}
		return p + "." + x.Sel.Name, true
	case *ast.StarExpr:
		return f.slicePath(x.X)
	}
	return "", false
}

func constInt(info *types.Info, e ast.Expr) (int, bool) {
	tv, ok := info.Types[e]
	if !ok || tv.Value == nil || tv.Value.Kind() != constant.Int {
		return 0, false
	}
	v, ok := constant.Int64Val(tv.Value)
	if !ok || v > 1<<20 || v < -(1<<20) {
		return 0, false
	}
	return int(v), true
}

// linear: e == base + c where base is "" (constant), a var key "v:..." or a len "len:S".
func (f *zfunc) linear(z *zstate, e ast.Expr) (base string, c int, ok bool) {
	e = ast.Unparen(e)
	if v, ok := constInt(f.info, e); ok {
		return "", v, true
	}
	switch x := e.(type) {
	case *ast.CallExpr:
		if id, ok := ast.Unparen(x.Fun).(*ast.Ident); ok && id.Name == "len" && len(x.Args) == 1 {
			if _, isB := f.info.Uses[id].(*types.Builtin); isB {
				if p, ok := f.slicePath(x.Args[0]); ok {
					return "len:" + p, 0, true
				}
			}
		}
		// conversions int(x)
		if tv, ok := f.info.Types[x.Fun]; ok && tv.IsType() && len(x.Args) == 1 {
			return f.linear(z, x.Args[0])
		}
	case *ast.Ident:
		if k, ok := f.varKey(x); ok {
			if a, ok := z.alias[k]; ok {
				return "len:" + a.S, a.C, true
			}
			return "v:" + k, 0, true
		}
	case *ast.BinaryExpr:
		if x.Op == token.ADD || x.Op == token.SUB {
			if cv, ok := constInt(f.info, x.Y); ok {
				b, c0, ok := f.linear(z, x.X)
				if ok {
					if x.Op == token.ADD {
						return b, c0 + cv, true
					}
					return b, c0 - cv, true
				}
			}
			if cv, ok := constInt(f.info, x.X); ok && x.Op == token.ADD {
				b, c0, ok := f.linear(z, x.Y)
				if ok {
					return b, c0 + cv, true
				}
			}
		}
	}
	return "", 0, false
}

// assume refines z with `cond == truth`.
func (f *zfunc) assume(z *zstate, cond ast.Expr, truth bool) {
	cond = ast.Unparen(cond)
	// case label of `switch len(S) {`: cond is the label value
	if tag, ok := f.caseTag[cond]; ok {
		if truth {
			f.assumeCmp(z, tag, token.EQL, cond)
		}
		return
	}
	switch x := cond.(type) {
	case *ast.UnaryExpr:
		if x.Op == token.NOT {
			f.assume(z, x.X, !truth)
		}
	case *ast.BinaryExpr:
		switch x.Op {
		case token.LAND:
			if truth {
				f.assume(z, x.X, true)
				f.assume(z, x.Y, true)
			}
		case token.LOR:
			if !truth {
				f.assume(z, x.X, false)
				f.assume(z, x.Y, false)
			}
		case token.LSS, token.LEQ, token.GTR, token.GEQ, token.EQL, token.NEQ:
			op := x.Op
			if !truth {
				switch op {
				case token.LSS:
					op = token.GEQ
				case token.LEQ:
					op = token.GTR
				case token.GTR:
					op = token.LEQ
				case token.GEQ:
					op = token.LSS
				case token.EQL:
					op = token.NEQ
				case token.NEQ:
					op = token.EQL
				}
			}
			f.assumeCmp(z, x.X, op, x.Y)
		}
	}
}

// assumeCmp: a OP b holds.
// isVectorSizeValue: e is an ir.VectorSize value or a conversion of one (at most 4 by the IR's invariant).
func (f *zfunc) isVectorSizeValue(e ast.Expr) bool {
	e = ast.Unparen(e)
	if call, ok := e.(*ast.CallExpr); ok && len(call.Args) == 1 {
		if tv, ok := f.info.Types[call.Fun]; ok && tv.IsType() {
			e = ast.Unparen(call.Args[0])
		}
	}
	tv, ok := f.info.Types[e]
	return ok && irTypeName(tv.Type) == "VectorSize" && tv.Value == nil
}

func (f *zfunc) assumeCmp(z *zstate, a ast.Expr, op token.Token, b ast.Expr) {
	// v < int(x.Size): a vector size is at most 4
	if f.isVectorSizeValue(b) {
		if base, c0, ok := f.linear(z, a); ok && strings.HasPrefix(base, "v:") {
			v := strings.TrimPrefix(base, "v:")
			bound := -1
			switch op {
			case token.LSS:
				bound = 3 - c0
			case token.LEQ, token.EQL:
				bound = 4 - c0
			}
			if bound >= 0 {
				if cur, ok := z.hi[v]; !ok || bound < cur {
					z.hi[v] = bound
				}
			}
		}
		return
	}
	if f.isVectorSizeValue(a) {
		switch op {
		case token.GTR:
			f.assumeCmp(z, b, token.LSS, a)
		case token.GEQ:
			f.assumeCmp(z, b, token.LEQ, a)
		}
		return
	}
	ab, ac, ok1 := f.linear(z, a)
	bb, bc, ok2 := f.linear(z, b)
	if !ok1 || !ok2 {
		return
	}
	// normalise to: L - R >= k   where L = ab+ac, R = bb+bc
	// a > b : a-b >= 1 ; a >= b : a-b >= 0 ; a == b : both >= 0 ; a < b : b-a >= 1 ; a <= b : b-a >= 0
	apply := func(lb string, lc int, rb string, rc int, k int) {
		// (lb+lc) - (rb+rc) >= k  =>  lb - rb >= k - lc + rc
		k = k - lc + rc
		switch {
		case strings.HasPrefix(lb, "len:") && rb == "":
			s := strings.TrimPrefix(lb, "len:")
			if k > z.minLen[s] {
				z.minLen[s] = k
			}
		case strings.HasPrefix(lb, "len:") && strings.HasPrefix(rb, "v:"):
			key := strings.TrimPrefix(lb, "len:") + "|" + strings.TrimPrefix(rb, "v:")
			if cur, ok := z.diff[key]; !ok || k > cur {
				z.diff[key] = k
			}
			// len(S) - v >= k and len(S) <= M  =>  v <= M - k
			if m, ok := z.maxLen[strings.TrimPrefix(lb, "len:")]; ok {
				v := strings.TrimPrefix(rb, "v:")
				if cur, ok := z.hi[v]; !ok || m-k < cur {
					z.hi[v] = m - k
				}
			}
		case strings.HasPrefix(lb, "v:") && strings.HasPrefix(rb, "v:"):
			// a - b >= k with hi(a) known  =>  b <= hi(a) - k
			a, b := strings.TrimPrefix(lb, "v:"), strings.TrimPrefix(rb, "v:")
			if ha, ok := z.hi[a]; ok {
				if cur, ok := z.hi[b]; !ok || ha-k < cur {
					z.hi[b] = ha - k
				}
			}
		case lb == "" && strings.HasPrefix(rb, "len:"):
			// 0 - len(S) >= k  =>  len(S) <= -k
			s := strings.TrimPrefix(rb, "len:")
			if cur, ok := z.maxLen[s]; !ok || -k < cur {
				z.maxLen[s] = -k
			}
		case lb == "" && strings.HasPrefix(rb, "v:"):
			// 0 - v >= k  => v <= -k
			v := strings.TrimPrefix(rb, "v:")
			if cur, ok := z.hi[v]; !ok || -k < cur {
				z.hi[v] = -k
			}
		case strings.HasPrefix(lb, "v:") && rb == "":
			v := strings.TrimPrefix(lb, "v:")
			if cur, ok := z.lo[v]; !ok || k > cur {
				z.lo[v] = k
			}
		}
	}
	switch op {
	case token.GTR:
		apply(ab, ac, bb, bc, 1)
	case token.GEQ:
		apply(ab, ac, bb, bc, 0)
	case token.LSS:
		apply(bb, bc, ab, ac, 1)
	case token.LEQ:
		apply(bb, bc, ab, ac, 0)
	case token.EQL:
		apply(ab, ac, bb, bc, 0)
		apply(bb, bc, ab, ac, 0)
	case token.NEQ:
		// len(S) != c where c is the known lower bound: len(S) >= c+1
		if strings.HasPrefix(ab, "len:") && bb == "" {
			s := strings.TrimPrefix(ab, "len:")
			if z.minLen[s] == bc-ac {
				z.minLen[s] = bc - ac + 1
			}
		} else if strings.HasPrefix(bb, "len:") && ab == "" {
			s := strings.TrimPrefix(bb, "len:")
			if z.minLen[s] == ac-bc {
				z.minLen[s] = ac - bc + 1
			}
		}
	}
}

func (z *zstate) killVar(v string) {
	delete(z.hi, v)
	delete(z.lo, v)
	delete(z.alias, v)
	for k := range z.diff {
		if strings.HasSuffix(k, "|"+v) {
			delete(z.diff, k)
		}
	}
}

func (z *zstate) killSlice(p string) {
	for k := range z.minLen {
		if k == p || strings.HasPrefix(k, p+".") {
			delete(z.minLen, k)
		}
	}
	for k := range z.maxLen {
		if k == p || strings.HasPrefix(k, p+".") {
			delete(z.maxLen, k)
		}
	}
	for k := range z.diff {
		s := k[:strings.Index(k, "|")]
		if s == p || strings.HasPrefix(s, p+".") {
			delete(z.diff, k)
		}
	}
	for k, a := range z.alias {
		if a.S == p || strings.HasPrefix(a.S, p+".") {
			delete(z.alias, k)
		}
	}
}

// shiftVar: v := v + c
func (z *zstate) shiftVar(v string, c int) {
	if h, ok := z.hi[v]; ok {
		z.hi[v] = h + c
	}
	if l, ok := z.lo[v]; ok {
		z.lo[v] = l + c
	}
	if a, ok := z.alias[v]; ok {
		z.alias[v] = zalias{a.S, a.C + c}
	}
	for k, d := range z.diff {
		if strings.HasSuffix(k, "|"+v) {
			z.diff[k] = d - c
		}
	}
}

func (f *zfunc) assign(z *zstate, lhs ast.Expr, rhs ast.Expr) {
	if vk, ok := f.varKey(lhs); ok {
		if rhs == nil {
			z.killVar(vk)
			return
		}
		// int(x) with x an ir.VectorSize: the IR only knows Vec2, Vec3, Vec4 (assumption, see evidence)
		if call, okc := ast.Unparen(rhs).(*ast.CallExpr); okc && len(call.Args) == 1 {
			if tv, okt := f.info.Types[call.Fun]; okt && tv.IsType() {
				if atv, oka := f.info.Types[call.Args[0]]; oka && irTypeName(atv.Type) == "VectorSize" {
					z.killVar(vk)
					z.hi[vk] = 4
					z.lo[vk] = 0
					z.materialize()
					return
				}
			}
		}
		b, c, ok := f.linear(z, rhs)
		switch {
		case ok && b == "v:"+vk:
			z.shiftVar(vk, c)
		case ok && b == "":
			z.killVar(vk)
			z.hi[vk] = c
			z.lo[vk] = c
			z.materialize()
		case ok && strings.HasPrefix(b, "len:"):
			z.killVar(vk)
			z.alias[vk] = zalias{strings.TrimPrefix(b, "len:"), c}
		case ok && strings.HasPrefix(b, "v:"):
			// v = w + c : copy w's facts shifted
			w := strings.TrimPrefix(b, "v:")
			wh, hasH := z.hi[w]
			wl, hasL := z.lo[w]
			type kv struct {
				k string
				d int
			}
			var cp []kv
			for k, d := range z.diff {
				if strings.HasSuffix(k, "|"+w) {
					cp = append(cp, kv{strings.TrimSuffix(k, "|"+w) + "|" + vk, d - c})
				}
			}
			z.killVar(vk)
			if hasH {
				z.hi[vk] = wh + c
			}
			if hasL {
				z.lo[vk] = wl + c
			}
			for _, e := range cp {
				z.diff[e.k] = e.d
			}
		default:
			z.killVar(vk)
		}
		return
	}
	if p, ok := f.slicePath(lhs); ok {
		ml := 0
		if rhs != nil {
			ml = f.minLenOf(z, rhs)
		}
		z.killSlice(p)
		if ml > 0 {
			z.minLen[p] = ml
		}
		return
	}
	// store through an index / deref: S[i] = x does not change len(S)
}

// lowerBound / upperBound of an integer expression (constants and tracked variables).
func (f *zfunc) lowerBound(z *zstate, e ast.Expr) (int, bool) {
	b, c, ok := f.linear(z, e)
	if !ok {
		return 0, false
	}
	switch {
	case b == "":
		return c, true
	case strings.HasPrefix(b, "v:"):
		if l, ok := z.lo[strings.TrimPrefix(b, "v:")]; ok {
			return l + c, true
		}
	case strings.HasPrefix(b, "len:"):
		return z.minLen[strings.TrimPrefix(b, "len:")] + c, true
	}
	return 0, false
}

func (f *zfunc) upperBound(z *zstate, e ast.Expr) (int, bool) {
	b, c, ok := f.linear(z, e)
	if !ok {
		return 0, false
	}
	switch {
	case b == "":
		return c, true
	case strings.HasPrefix(b, "v:"):
		if h, ok := z.hi[strings.TrimPrefix(b, "v:")]; ok {
			return h + c, true
		}
	}
	return 0, false
}

// minLenOf: lower bound of the length of a slice-valued expression.
func (f *zfunc) minLenOf(z *zstate, e ast.Expr) int {
	e = ast.Unparen(e)
	if p, ok := f.slicePath(e); ok {
		return z.minLen[p]
	}
	switch x := e.(type) {
	case *ast.SliceExpr:
		lo := 0
		if x.Low != nil {
			h, ok := f.upperBound(z, x.Low)
			if !ok {
				return 0
			}
			lo = h
		}
		if x.High != nil {
			l, ok := f.lowerBound(z, x.High)
			if !ok {
				return 0
			}
			if l-lo > 0 {
				return l - lo
			}
			return 0
		}
		if m := f.minLenOf(z, x.X) - lo; m > 0 {
			return m
		}
	case *ast.CallExpr:
		if id, ok := ast.Unparen(x.Fun).(*ast.Ident); ok && id.Name == "append" && len(x.Args) >= 1 {
			if _, isB := f.info.Uses[id].(*types.Builtin); isB {
				n := f.minLenOf(z, x.Args[0])
				if x.Ellipsis == token.NoPos {
					n += len(x.Args) - 1
				} else if len(x.Args) == 2 {
					n += f.minLenOf(z, x.Args[1])
				}
				return n
			}
		}
	case *ast.CompositeLit:
		if _, ok := f.info.Types[x].Type.Underlying().(*types.Slice); ok {
			keyed := false
			for _, el := range x.Elts {
				if _, ok := el.(*ast.KeyValueExpr); ok {
					keyed = true
				}
			}
			if !keyed {
				return len(x.Elts)
			}
		}
	}
	return 0
}

func (f *zfunc) transfer(z *zstate, n ast.Node) {
	switch x := n.(type) {
	case *ast.AssignStmt:
		if x.Tok == token.ASSIGN || x.Tok == token.DEFINE {
			if len(x.Lhs) == len(x.Rhs) {
				for i := range x.Lhs {
					f.assign(z, x.Lhs[i], x.Rhs[i])
				}
			} else {
				for _, l := range x.Lhs {
					f.assign(z, l, nil)
				}
			}
			return
		}
		// op-assign
		if len(x.Lhs) == 1 && len(x.Rhs) == 1 {
			if vk, ok := f.varKey(x.Lhs[0]); ok {
				if cv, ok := constInt(f.info, x.Rhs[0]); ok && (x.Tok == token.ADD_ASSIGN || x.Tok == token.SUB_ASSIGN) {
					if x.Tok == token.SUB_ASSIGN {
						cv = -cv
					}
					z.shiftVar(vk, cv)
				} else {
					z.killVar(vk)
				}
				return
			}
			f.assign(z, x.Lhs[0], nil)
		}
	case *ast.IncDecStmt:
		if vk, ok := f.varKey(x.X); ok {
			if x.Tok == token.INC {
				z.shiftVar(vk, 1)
			} else {
				z.shiftVar(vk, -1)
			}
		}
	case *ast.DeclStmt:
		if gd, ok := x.Decl.(*ast.GenDecl); ok {
			for _, sp := range gd.Specs {
				if vs, ok := sp.(*ast.ValueSpec); ok {
					for i, nm := range vs.Names {
						if i < len(vs.Values) && len(vs.Values) == len(vs.Names) {
							f.assign(z, nm, vs.Values[i])
						} else if len(vs.Values) == 0 {
							// var i int  => 0
							if vk, ok := f.varKey(nm); ok {
								z.killVar(vk)
								z.hi[vk] = 0
								z.lo[vk] = 0
								z.materialize()
							}
						} else {
							f.assign(z, nm, nil)
						}
					}
				}
			}
		}
	}
}

type zsite struct {
	Fn     *funcInfo
	Expr   *ast.IndexExpr
	Proven bool
	Why    string
}

var zoneStrings = false

func isParserElemSlice(t types.Type) bool {
	if zoneStrings {
		if b, ok := types.Unalias(t).Underlying().(*types.Basic); ok && b.Kind() == types.String {
			return true
		}
	}
	sl, ok := types.Unalias(t).Underlying().(*types.Slice)
	if !ok {
		return false
	}
	e := sl.Elem()
	if p, ok := types.Unalias(e).(*types.Pointer); ok {
		e = p.Elem()
	}
	n, ok := types.Unalias(e).(*types.Named)
	if !ok || n.Obj().Pkg() == nil {
		return false
	}
	return relPkg(n.Obj().Pkg().Path()) == "wgsl/internal/parser"
}

func (f *zfunc) checkSites(fn *funcInfo, z *zstate, n ast.Node, out *[]zsite, seen map[*ast.IndexExpr]int) {
	ast.Inspect(n, func(m ast.Node) bool {
		switch x := m.(type) {
		case *ast.FuncLit:
			return false
		case *ast.IndexExpr:
			tv, ok := f.info.Types[x.X]
			if !ok {
				return true
			}
			// fixed-size arrays indexed by a tracked variable: the bound is the array length
			at := tv.Type
			if p, ok := at.Underlying().(*types.Pointer); ok {
				at = p.Elem()
			}
			if arr, ok := at.Underlying().(*types.Array); ok {
				b, c0, okl := f.linear(z, x.Index)
				if !okl || !strings.HasPrefix(b, "v:") {
					return true // constant indices are checked by the compiler; other forms are not judged
				}
				v := strings.TrimPrefix(b, "v:")
				proven, why := z.dead, ""
				if h, ok := z.hi[v]; ok && int64(h+c0) <= arr.Len()-1 {
					proven = true
				} else if !proven {
					why = "no upper bound below " + itoa(int(arr.Len())) + " is established for " + types.ExprString(x.Index)
				}
				idx, had := seen[x]
				if !had {
					seen[x] = len(*out)
					*out = append(*out, zsite{Fn: fn, Expr: x, Proven: proven, Why: why})
				} else if !proven {
					(*out)[idx].Proven = false
					(*out)[idx].Why = why
				}
				return true
			}
			if !isParserElemSlice(tv.Type) {
				return true
			}
			p, okp := f.slicePath(x.X)
			b, c, okl := f.linear(z, x.Index)
			if !okl || strings.HasPrefix(b, "len:") && !okp {
				return true // not a constant / local-variable index: not judged
			}
			proven, why := false, ""
			if z.dead {
				proven = true
			} else if !okp {
				why = "the slice is not a simple variable/field path"
			} else {
				switch {
				case b == "":
					proven = z.minLen[p] >= c+1
					why = "len(" + types.ExprString(x.X) + ") is only known to be >= " + itoa(z.minLen[p]) + ", index " + itoa(c)
				case strings.HasPrefix(b, "v:"):
					v := strings.TrimPrefix(b, "v:")
					if d, ok := z.diff[p+"|"+v]; ok && d >= c+1 {
						proven = true
					} else if h, ok := z.hi[v]; ok && z.minLen[p] >= h+c+1 {
						proven = true
					} else {
						why = "no established relation " + types.ExprString(x.Index) + " < len(" + types.ExprString(x.X) + ")"
					}
				case strings.HasPrefix(b, "len:"):
					s := strings.TrimPrefix(b, "len:")
					// S[len(S)-1] needs len >= 1
					if s == p && c < 0 {
						proven = z.minLen[p] >= -c
						why = "len(" + types.ExprString(x.X) + ") is only known to be >= " + itoa(z.minLen[p])
					} else {
						why = "index is len-based"
					}
				}
			}
			// a site is proven only if proven on every visit (states only weaken, last visit decides)
			idx, had := seen[x]
			if !had {
				seen[x] = len(*out)
				*out = append(*out, zsite{Fn: fn, Expr: x, Proven: proven, Why: why})
			} else if !proven {
				(*out)[idx].Proven = false
				(*out)[idx].Why = why
			}
		}
		return true
	})
}

// analyseIndexing runs the zone analysis over one function body (or closure body).
func (f *zfunc) analyseBody(fn *funcInfo, body *ast.BlockStmt, init *zstate, out *[]zsite) {
	g := cfg.New(body, func(call *ast.CallExpr) bool {
		if id, ok := ast.Unparen(call.Fun).(*ast.Ident); ok {
			if b, ok := f.info.Uses[id].(*types.Builtin); ok && b.Name() == "panic" {
				return false
			}
		}
		return true
	})
	if len(g.Blocks) == 0 {
		return
	}
	in := make([]*zstate, len(g.Blocks))
	visits := make([]int, len(g.Blocks))
	prevIn := make([]*zstate, len(g.Blocks))
	for i := range in {
		in[i] = newZ()
		in[i].dead = true
	}
	in[0] = init.clone()
	in[0].dead = false
	work := []int32{0}
	inWork := map[int32]bool{0: true}
	type closureAt struct {
		lit *ast.FuncLit
		st  *zstate
	}
	var closures []closureAt
	seenLit := map[*ast.FuncLit]int{}
	for len(work) > 0 {
		bi := work[0]
		work = work[1:]
		inWork[bi] = false
		b := g.Blocks[bi]
		visits[bi]++
		z := in[bi].clone()
		if visits[bi] > 8 {
			// widening: drop exactly the facts that are still getting weaker at this block
			if pv := prevIn[bi]; pv != nil {
				for k, v := range z.diff {
					if ov, ok := pv.diff[k]; !ok || ov != v {
						delete(z.diff, k)
						delete(in[bi].diff, k)
					}
				}
				for k, v := range z.hi {
					if ov, ok := pv.hi[k]; !ok || ov != v {
						delete(z.hi, k)
						delete(in[bi].hi, k)
					}
				}
				for k, v := range z.lo {
					if ov, ok := pv.lo[k]; !ok || ov != v {
						delete(z.lo, k)
						delete(in[bi].lo, k)
					}
				}
			}
		}
		prevIn[bi] = in[bi].clone()
		// range body: key facts
		if b.Kind == cfg.KindRangeBody {
			if rs, ok := b.Stmt.(*ast.RangeStmt); ok && rs.Key != nil {
				if vk, ok := f.varKey(rs.Key); ok {
					z.killVar(vk)
					if p, ok := f.slicePath(rs.X); ok {
						z.diff[p+"|"+vk] = 1
						if z.minLen[p] < 1 {
							z.minLen[p] = 1
						}
						if m, ok := z.maxLen[p]; ok {
							z.hi[vk] = m - 1
						}
						z.lo[vk] = 0
					}
				}
				if rs.Value != nil {
					f.assign(z, rs.Value, nil)
				}
			}
		}
		var cond ast.Expr
		for i, n := range b.Nodes {
			// closures created here inherit the length facts of never-reassigned slices
			ast.Inspect(n, func(m ast.Node) bool {
				if lit, ok := m.(*ast.FuncLit); ok {
					st := newZ()
					for k, v := range z.minLen {
						st.minLen[k] = v
					}
					if idx, had := seenLit[lit]; had {
						closures[idx].st.join(st)
					} else {
						seenLit[lit] = len(closures)
						closures = append(closures, closureAt{lit, st})
					}
					return false
				}
				return true
			})
			if i == len(b.Nodes)-1 && len(b.Succs) == 2 {
				if e, ok := n.(ast.Expr); ok {
					cond = e
					// index sites inside the condition are evaluated before the branch
					f.checkSites(fn, z, n, out, seenSites(out))
					f.recordCalls(z, n)
					continue
				}
			}
			f.checkSites(fn, z, n, out, seenSites(out))
			f.recordCalls(z, n)
			f.transfer(z, n)
		}
		for si, s := range b.Succs {
			ns := z.clone()
			if cond != nil && len(b.Succs) == 2 {
				f.assume(ns, cond, si == 0)
			}
			ns.materialize()
			if in[s.Index].join(ns) || visits[s.Index] == 0 {
				if !inWork[s.Index] {
					work = append(work, s.Index)
					inWork[s.Index] = true
				}
			}
		}
	}
	for _, cl := range closures {
		// slices whose root is reassigned anywhere keep no facts
		f.analyseBody(fn, cl.lit.Body, cl.st, out)
	}
}

var siteIndex = map[*[]zsite]map[*ast.IndexExpr]int{}

func seenSites(out *[]zsite) map[*ast.IndexExpr]int {
	m := siteIndex[out]
	if m == nil {
		m = map[*ast.IndexExpr]int{}
		siteIndex[out] = m
	}
	return m
}

// closedWorld: functions all of whose callers are visible (declared in the module and never used as a value).
func (c *Ctx) funcsUsedAsValues() map[*types.Func]bool {
	if v, ok := c.cache["funcsUsedAsValues"]; ok {
		return v.(map[*types.Func]bool)
	}
	out := map[*types.Func]bool{}
	for _, fn := range c.allFuncs() {
		info := fn.Pkg.Info
		callFuns := map[ast.Expr]bool{}
		ast.Inspect(fn.Decl.Body, func(n ast.Node) bool {
			if call, ok := n.(*ast.CallExpr); ok {
				callFuns[ast.Unparen(call.Fun)] = true
			}
			return true
		})
		ast.Inspect(fn.Decl.Body, func(n ast.Node) bool {
			switch x := n.(type) {
			case *ast.Ident:
				if f, ok := info.Uses[x].(*types.Func); ok && !callFuns[x] {
					out[f.Origin()] = true
				}
			case *ast.SelectorExpr:
				if f, ok := info.Uses[x.Sel].(*types.Func); ok {
					if !callFuns[x] {
						out[f.Origin()] = true
					}
					return false
				}
			}
			return true
		})
	}
	c.cache["funcsUsedAsValues"] = out
	return out
}

func (c *Ctx) argIndexSites(pkgs func(string) bool) []zsite {
	asValue := c.funcsUsedAsValues()
	// parameter facts: callee -> "<param index><suffix>" -> min over all call sites
	paramFacts := map[*types.Func]map[string]int{}
	var all []zsite
	for round := 0; round < 5; round++ {
		all = nil
		siteCalls := map[*types.Func][]map[string]int{}
		for _, fn := range c.allFuncs() {
			if !pkgs(fn.Pkg.Rel) {
				continue
			}
			info := fn.Pkg.Info
			zf := &zfunc{c: c, info: info, untrack: map[types.Object]bool{}, caseTag: map[ast.Expr]ast.Expr{},
				calls: map[*ast.CallExpr]map[string]int{}, callee: map[*ast.CallExpr]*types.Func{}}
			// untracked variables: assigned inside closures, address taken
			var inLit int
			var pre func(n ast.Node) bool
			pre = func(n ast.Node) bool {
				switch x := n.(type) {
				case *ast.FuncLit:
					inLit++
					ast.Inspect(x.Body, pre)
					inLit--
					return false
				case *ast.UnaryExpr:
					if x.Op == token.AND {
						if id, ok := ast.Unparen(x.X).(*ast.Ident); ok {
							if o := info.Uses[id]; o != nil {
								zf.untrack[o] = true
							}
						}
					}
				case *ast.AssignStmt:
					if inLit > 0 {
						for _, l := range x.Lhs {
							if id, ok := ast.Unparen(l).(*ast.Ident); ok {
								if o := info.Uses[id]; o != nil {
									zf.untrack[o] = true
								}
							}
						}
					}
				case *ast.IncDecStmt:
					if inLit > 0 {
						if id, ok := ast.Unparen(x.X).(*ast.Ident); ok {
							if o := info.Uses[id]; o != nil {
								zf.untrack[o] = true
							}
						}
					}
				case *ast.SwitchStmt:
					if x.Tag != nil {
						for _, cl := range x.Body.List {
							for _, l := range cl.(*ast.CaseClause).List {
								zf.caseTag[ast.Unparen(l)] = x.Tag
							}
						}
					}
				}
				return true
			}
			ast.Inspect(fn.Decl.Body, pre)
			init := newZ()
			if fn.Obj != nil && !asValue[fn.Obj] && !fn.Obj.Exported() {
				if pf := paramFacts[fn.Obj]; pf != nil && fn.Decl.Type.Params != nil {
					idx := 0
					for _, fl := range fn.Decl.Type.Params.List {
						for _, nm := range fl.Names {
							if key, ok := zf.slicePath(nm); ok {
								pre := itoa(idx)
								for k, v := range pf {
									if k == pre || strings.HasPrefix(k, pre+".") {
										if v > 0 {
											init.minLen[key+strings.TrimPrefix(k, pre)] = v
										}
									}
								}
							}
							idx++
						}
						if len(fl.Names) == 0 {
							idx++
						}
					}
				}
			}
			var out []zsite
			zf.analyseBody(fn, fn.Decl.Body, init, &out)
			delete(siteIndex, &out)
			all = append(all, out...)
			for call, facts := range zf.calls {
				siteCalls[zf.callee[call]] = append(siteCalls[zf.callee[call]], facts)
			}
		}
		// aggregate: min over call sites; a key missing at one site is 0
		next := map[*types.Func]map[string]int{}
		for callee, sites := range siteCalls {
			agg := map[string]int{}
			for k, v := range sites[0] {
				agg[k] = v
			}
			for _, fs := range sites[1:] {
				for k := range agg {
					if v, ok := fs[k]; !ok {
						delete(agg, k)
					} else if v < agg[k] {
						agg[k] = v
					}
				}
			}
			next[callee] = agg
		}
		same := len(next) == len(paramFacts)
		if same {
			for f, m := range next {
				pm := paramFacts[f]
				if len(pm) != len(m) {
					same = false
					break
				}
				for k, v := range m {
					if pm[k] != v {
						same = false
					}
				}
			}
		}
		paramFacts = next
		if same {
			break
		}
	}
	return all
}

func (c *Ctx) runArgIndex(r *Report, rule string, pkgs func(string) bool, exceptions map[string]string) {
	sites := c.argIndexSites(pkgs)
	ord := map[string]int{}
	sort.SliceStable(sites, func(i, j int) bool { return sites[i].Expr.Pos() < sites[j].Expr.Pos() })
	for _, s := range sites {
		cons := s.Fn.id() + ":" + noSpace(types.ExprString(s.Expr))
		ord[cons]++
		if ord[cons] > 1 {
			cons += "#" + itoa(ord[cons])
		}
		pos := c.pos(s.Expr.Pos())
		switch {
		case s.Proven:
			r.ok(rule, cons, pos, "")
		case exceptions[cons] != "":
			r.exc(rule, cons, pos, exceptions[cons])
		default:
			r.viol(rule, cons, pos, s.Fn.id()+" indexes "+types.ExprString(s.Expr)+" but not every path establishes the index is below the length ("+s.Why+"): the length of this slice is chosen by the source text, so some input makes the index expression panic")
		}
	}
	r.inst("abort.argindex", len(sites))
}

func init() {
	dumpers["argindex"] = func(c *Ctx, parts []string) {
		if len(parts) > 1 && parts[1] == "strings" {
			zoneStrings = true
		}
		r := newReport("dump")
		c.runArgIndex(r, "abort.argindex", func(string) bool { return true }, nil)
		nok := 0
		for _, o := range r.Obs {
			if o.Verdict == OK {
				nok++
				continue
			}
			println(o.Verdict, o.Construct, o.Pos, o.Msg[strings.Index(o.Msg, "("):])
		}
		println("sites", len(r.Obs), "proven", nok)
	}
}
