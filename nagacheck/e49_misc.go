package main

// Four small structural rules armed after the sixth seed batch.
//
// bounds.sameslice (C17, C10): `if int(h) < len(A) { ... B[h] ... }` proves
// nothing about B. Inside an if whose condition bounds an index expression by
// len(A), the same index applied to a different slice B (no len(B) test in the
// condition, B not A) reads a slice whose length was never checked - with two
// modules in play (a vertex and a fragment module) the guard and the access
// disagree about which module's type arena is indexed.
//
// cachekey.separator (C02, C12): a string used as a map key that is built by
// concatenating several decimal renderings (Sprintf %d, strconv.Itoa /
// FormatUint / FormatInt) must keep a non-digit between two numbers, or
// different sequences collide ("3" "4" vs "34").
//
// memo.nilresult (C10): a memoising function - it returns m[k] early when
// present and stores its result with m[k] = r before returning r - whose
// result can be nil (declared `var r []T` and only appended to) must test
// presence with the two-value lookup; `if c := m[k]; c != nil` recomputes every
// nil result at every call (exponential on call chains).
//
// parse.headersemi (C08, C19): statement parsers that can run in for-header mode
// expect their terminating semicolon through the helper that knows about the
// header flag, never with a direct expect(TokenSemicolon).

import (
	"go/ast"
	"go/token"
	"go/types"
	"strconv"
	"strings"
)

const (
	sameSliceClause  = "guard and access agree (E49): inside `if int(h) < len(A) {`, the index h is not applied to another type arena B whose length the condition does not test"
	cacheKeyClause   = "unambiguous cache keys (E49): a string map key concatenated from several decimal numbers keeps a non-digit between consecutive numbers"
	memoNilClause    = "memoisation of nil results (E49): a memoising function whose result can be nil tests the cache with the two-value lookup"
	headerSemiClause = "for-header semicolons (E49): a statement parser that expects its semicolon through the header-aware helper on one exit does so on all exits"
)

func (c *Ctx) runBoundsSameSlice(r *Report, rule string, pkgs func(string) bool) {
	n := 0
	for _, fn := range c.allFuncs() {
		if !pkgs(fn.Pkg.Rel) {
			continue
		}
		info := fn.Pkg.Info
		ord := map[string]int{}
		stripConv := func(e ast.Expr) ast.Expr {
			for {
				e = ast.Unparen(e)
				if call, ok := e.(*ast.CallExpr); ok && len(call.Args) == 1 {
					if tv, ok := info.Types[call.Fun]; ok && tv.IsType() {
						e = call.Args[0]
						continue
					}
				}
				return e
			}
		}
		ast.Inspect(fn.Decl.Body, func(m ast.Node) bool {
			ifs, ok := m.(*ast.IfStmt)
			if !ok {
				return true
			}
			// guards idx < len(A) in the condition (conjunctions only)
			type guard struct{ idx, arr string }
			var guards []guard
			lenOf := map[string]bool{}
			var walk func(e ast.Expr)
			walk = func(e ast.Expr) {
				e = ast.Unparen(e)
				be, ok := e.(*ast.BinaryExpr)
				if !ok {
					return
				}
				if be.Op == token.LAND {
					walk(be.X)
					walk(be.Y)
					return
				}
				if be.Op == token.LSS {
					if call, ok := ast.Unparen(be.Y).(*ast.CallExpr); ok && len(call.Args) == 1 {
						if id, ok := call.Fun.(*ast.Ident); ok && id.Name == "len" {
							guards = append(guards, guard{types.ExprString(stripConv(be.X)), types.ExprString(call.Args[0])})
							lenOf[types.ExprString(call.Args[0])] = true
						}
					}
				}
			}
			walk(ifs.Cond)
			if len(guards) == 0 {
				return true
			}
			ast.Inspect(ifs.Body, func(k ast.Node) bool {
				ix, ok := k.(*ast.IndexExpr)
				if !ok {
					return true
				}
				if _, isSlice := info.TypeOf(ix.X).Underlying().(*types.Slice); !isSlice {
					return true
				}
				idx := types.ExprString(stripConv(ix.Index))
				arr := types.ExprString(ix.X)
				for _, g := range guards {
					if g.idx != idx {
						continue
					}
					n++
					key := fn.id() + ":" + noSpace(arr) + "[" + noSpace(idx) + "]"
					ord[key]++
					cons := key + "#" + itoa(ord[key])
					if g.arr == arr || lenOf[arr] {
						r.ok(rule, cons, c.pos(ix.Pos()), "")
					} else if strings.HasSuffix(g.arr, ".Types") && strings.HasSuffix(arr, ".Types") {
						r.viol(rule, cons, c.pos(ix.Pos()), fn.id()+": "+idx+" is bounded by len("+g.arr+") but indexes "+arr+": the guard and the access look at different type arenas")
					} else {
						r.triv(rule, cons, c.pos(ix.Pos()), "parallel slices: "+g.arr+" / "+arr)
					}
					break
				}
				return true
			})
			return true
		})
	}
	r.inst("bounds.sameslice", n)
}

func (c *Ctx) runCacheKeySeparator(r *Report, rule string, pkgs func(string) bool) {
	n := 0
	for _, fn := range c.allFuncs() {
		if !pkgs(fn.Pkg.Rel) {
			continue
		}
		info := fn.Pkg.Info
		// string variables used as map keys
		keyVars := map[types.Object]bool{}
		ast.Inspect(fn.Decl.Body, func(m ast.Node) bool {
			if ix, ok := m.(*ast.IndexExpr); ok {
				if _, isMap := info.TypeOf(ix.X).Underlying().(*types.Map); isMap {
					if id, ok := ast.Unparen(ix.Index).(*ast.Ident); ok {
						if v, ok := info.Uses[id].(*types.Var); ok {
							if b, ok := v.Type().Underlying().(*types.Basic); ok && b.Kind() == types.String {
								keyVars[v] = true
							}
						}
					}
				}
			}
			return true
		})
		if len(keyVars) == 0 {
			continue
		}
		// pattern of a piece: N for a number, literal text otherwise, ? unknown
		var pattern func(e ast.Expr) string
		pattern = func(e ast.Expr) string {
			e = ast.Unparen(e)
			switch x := e.(type) {
			case *ast.BasicLit:
				if x.Kind == token.STRING {
					s, _ := strconv.Unquote(x.Value)
					return s
				}
			case *ast.BinaryExpr:
				if x.Op == token.ADD {
					return pattern(x.X) + pattern(x.Y)
				}
			case *ast.CallExpr:
				f := calleeOf(info, x)
				if f != nil && f.Pkg() != nil {
					switch f.Pkg().Path() + "." + f.Name() {
					case "strconv.Itoa", "strconv.FormatUint", "strconv.FormatInt":
						return "N"
					case "fmt.Sprintf":
						if len(x.Args) > 0 {
							if lit, ok := ast.Unparen(x.Args[0]).(*ast.BasicLit); ok {
								s, _ := strconv.Unquote(lit.Value)
								return strings.NewReplacer("%d", "N", "%v", "?", "%s", "?").Replace(s)
							}
						}
					}
				}
			case *ast.Ident:
				if keyVars[info.Uses[x]] {
					return "" // the key so far: handled by the caller
				}
			}
			return "?"
		}
		for kv := range keyVars {
			var pieces []string
			var firstPos token.Pos
			inLoop := map[int]bool{}
			ast.Inspect(fn.Decl.Body, func(m ast.Node) bool {
				as, ok := m.(*ast.AssignStmt)
				if !ok || len(as.Lhs) != 1 || len(as.Rhs) != 1 {
					return true
				}
				id, ok := as.Lhs[0].(*ast.Ident)
				if !ok || info.ObjectOf(id) != kv {
					return true
				}
				if firstPos == 0 {
					firstPos = as.Pos()
				}
				pieces = append(pieces, pattern(as.Rhs[0]))
				// appended inside a loop?
				ast.Inspect(fn.Decl.Body, func(k ast.Node) bool {
					switch l := k.(type) {
					case *ast.RangeStmt:
						if l.Body.Pos() <= as.Pos() && as.End() <= l.Body.End() {
							inLoop[len(pieces)-1] = true
						}
					case *ast.ForStmt:
						if l.Body.Pos() <= as.Pos() && as.End() <= l.Body.End() {
							inLoop[len(pieces)-1] = true
						}
					}
					return true
				})
				return true
			})
			nums := 0
			for _, p := range pieces {
				nums += strings.Count(p, "N")
			}
			if len(pieces) < 2 || nums < 2 {
				continue
			}
			n++
			cons := fn.id() + ":" + kv.Name()
			bad := false
			seq := ""
			for i, p := range pieces {
				if strings.HasSuffix(seq, "N") && strings.HasPrefix(p, "N") {
					bad = true
				}
				seq += p
				if inLoop[i] && strings.HasSuffix(p, "N") && strings.HasPrefix(p, "N") {
					bad = true // the piece follows itself
				}
			}
			if strings.Contains(seq, "NN") {
				bad = true
			}
			if bad {
				r.viol(rule, cons, c.pos(firstPos), fn.id()+" builds the map key "+kv.Name()+" from several decimal numbers with nothing between two of them: different sequences of numbers render to the same key (3,4 and 34) and share a cache entry")
			} else {
				r.ok(rule, cons, c.pos(firstPos), seq)
			}
		}
	}
	r.inst("cachekey.separator", n)
}

func (c *Ctx) runMemoNilResult(r *Report, rule string, pkgs func(string) bool) {
	n := 0
	for _, fn := range c.allFuncs() {
		if !pkgs(fn.Pkg.Rel) {
			continue
		}
		info := fn.Pkg.Info
		// stores m[k] = r  (m a map-typed field) with r a local
		type store struct {
			m   string
			res types.Object
		}
		var stores []store
		ast.Inspect(fn.Decl.Body, func(k ast.Node) bool {
			as, ok := k.(*ast.AssignStmt)
			if !ok || len(as.Lhs) != 1 || len(as.Rhs) != 1 || as.Tok != token.ASSIGN {
				return true
			}
			ix, ok := ast.Unparen(as.Lhs[0]).(*ast.IndexExpr)
			if !ok {
				return true
			}
			if _, isMap := info.TypeOf(ix.X).Underlying().(*types.Map); !isMap {
				return true
			}
			if id, ok := ast.Unparen(as.Rhs[0]).(*ast.Ident); ok {
				if v, ok := info.Uses[id].(*types.Var); ok {
					stores = append(stores, store{types.ExprString(ix.X), v})
				}
			}
			return true
		})
		if len(stores) == 0 {
			continue
		}
		// early lookups of the same map that return the cached value
		ast.Inspect(fn.Decl.Body, func(k ast.Node) bool {
			ifs, ok := k.(*ast.IfStmt)
			if !ok || ifs.Init == nil {
				return true
			}
			as, ok := ifs.Init.(*ast.AssignStmt)
			if !ok || len(as.Rhs) != 1 {
				return true
			}
			ix, ok := ast.Unparen(as.Rhs[0]).(*ast.IndexExpr)
			if !ok {
				return true
			}
			mname := types.ExprString(ix.X)
			var st *store
			for i := range stores {
				if stores[i].m == mname {
					st = &stores[i]
				}
			}
			if st == nil {
				return true
			}
			returns := false
			for _, s := range ifs.Body.List {
				if _, ok := s.(*ast.ReturnStmt); ok {
					returns = true
				}
			}
			if !returns {
				return true
			}
			n++
			cons := fn.id() + ":" + noSpace(mname)
			if len(as.Lhs) == 2 {
				r.ok(rule, cons, c.pos(ifs.Pos()), "two-value lookup")
				return true
			}
			// one-value lookup compared with nil: fine only if the stored result cannot be nil
			canBeNil := false
			if _, isSlice := st.res.Type().Underlying().(*types.Slice); isSlice {
				canBeNil = true
				ast.Inspect(fn.Decl.Body, func(q ast.Node) bool {
					if a2, ok := q.(*ast.AssignStmt); ok && len(a2.Lhs) == 1 && len(a2.Rhs) == 1 {
						if id, ok := a2.Lhs[0].(*ast.Ident); ok && info.ObjectOf(id) == st.res {
							switch rhs := ast.Unparen(a2.Rhs[0]).(type) {
							case *ast.CompositeLit:
								canBeNil = false
							case *ast.CallExpr:
								if fid, ok := rhs.Fun.(*ast.Ident); ok && fid.Name == "make" {
									canBeNil = false
								}
							}
						}
					}
					return true
				})
			}
			if canBeNil {
				r.viol(rule, cons, c.pos(ifs.Pos()), fn.id()+" memoises its result in "+mname+" but tests the cache with a one-value lookup against nil, and the stored result ("+st.res.Name()+") can be nil: every nil result is recomputed at every call, which is exponential on a chain of callers")
			} else {
				r.ok(rule, cons, c.pos(ifs.Pos()), "result never nil")
			}
			return true
		})
	}
	r.inst("memo.nilresult", n)
}

func (c *Ctx) runHeaderSemicolon(r *Report, rule string, pkg string) {
	n := 0
	// the header-aware helper: a function that tests a bool field and otherwise expects TokenSemicolon
	var helper, raw *types.Func
	for _, fn := range c.allFuncs() {
		if fn.Pkg.Rel != pkg || fn.Obj == nil {
			continue
		}
		info := fn.Pkg.Info
		var readsFlag bool
		var inner *types.Func
		ast.Inspect(fn.Decl.Body, func(m ast.Node) bool {
			switch x := m.(type) {
			case *ast.IfStmt:
				if se, ok := ast.Unparen(x.Cond).(*ast.SelectorExpr); ok {
					if v, ok := info.Uses[se.Sel].(*types.Var); ok && v.IsField() && isBoolType(v.Type()) {
						readsFlag = true
					}
				}
			case *ast.CallExpr:
				if len(x.Args) == 1 && irConstNameAny(info, x.Args[0]) == "TokenSemicolon" {
					inner = calleeOf(info, x)
				}
			}
			return true
		})
		if readsFlag && inner != nil && len(fn.Decl.Body.List) <= 3 {
			helper, raw = fn.Obj, inner.Origin()
		}
	}
	if helper == nil {
		r.undecided(rule, pkg+":semicolon-helper", "", "header-aware semicolon helper not found")
		return
	}
	// statement parsers that use the helper at least once must not also use the raw form
	for _, fn := range c.allFuncs() {
		if fn.Pkg.Rel != pkg || fn.Obj == nil || fn.Obj == helper {
			continue
		}
		info := fn.Pkg.Info
		usesHelper := false
		var rawCalls []*ast.CallExpr
		ast.Inspect(fn.Decl.Body, func(m ast.Node) bool {
			if call, ok := m.(*ast.CallExpr); ok {
				f := calleeOf(info, call)
				if f == nil {
					return true
				}
				if f.Origin() == helper {
					usesHelper = true
				}
				if f.Origin() == raw && len(call.Args) == 1 && irConstNameAny(info, call.Args[0]) == "TokenSemicolon" {
					rawCalls = append(rawCalls, call)
				}
			}
			return true
		})
		if !usesHelper {
			continue
		}
		n++
		cons := fn.id() + ":semicolon"
		if len(rawCalls) == 0 {
			r.ok(rule, cons, c.pos(fn.Decl.Pos()), "")
		} else {
			r.viol(rule, cons, c.pos(rawCalls[0].Pos()), fn.id()+" expects its terminating semicolon through "+helper.Name()+" on some exits and directly on another: in a for-loop header (where the clause has no semicolon of its own) the direct expectation rejects the valid statement")
		}
	}
	r.inst("parse.headersemi", n)
}

func init() {
	dumpers["misc49"] = func(c *Ctx, parts []string) {
		r := newReport("dump")
		all := func(string) bool { return true }
		c.runBoundsSameSlice(r, "bounds.sameslice", all)
		c.runCacheKeySeparator(r, "cachekey.separator", all)
		c.runMemoNilResult(r, "memo.nilresult", all)
		c.runHeaderSemicolon(r, "parse.headersemi", "wgsl/internal/parser")
		c.runTemplateClose(r, "template.close", "wgsl/internal/parser")
		c.runHelperDedupScope(r, "helper.dedupscope", all)
		c.runImageCoordMerge(r, "image.coordmerge", "hlsl/internal/codegen")
		c.runImageCoordBuilder(r, "image.coordbuilder", "glsl/internal/codegen")
		c.runErrNilOnly(r, "errflow.nilonly", inPkgs("wgsl"), nil)
		c.runSizeSignCheck(r, "size.signcheck", inPkgs("wgsl", "ir"))
		c.runSampleOffsetKept(r, "sample.offsetkept", "wgsl/internal/lower")
		cnt := map[string]int{}
		for _, o := range r.Obs {
			if o.Verdict == "ok" || o.Verdict == "trivial" {
				cnt[o.Rule+" "+o.Verdict]++
				if o.Rule != "bounds.sameslice" {
					println(o.Verdict, o.Rule, o.Construct, o.Pos, o.Msg)
				}
				continue
			}
			println(o.Verdict, o.Rule, o.Construct, o.Pos, o.Msg)
		}
		for k, v := range cnt {
			println(k, v)
		}
	}
}

// template.close (C08, C19): in WGSL a '>' is only ever *expected* as the end of
// a template list, and the lexer may have fused it with what follows ('>>',
// '>=', '>>='). The parser has one helper that splits all three (the function
// that tests TokenGreaterEqual and TokenGreaterGreaterEqual); no other call may
// expect TokenGreater directly, or `var x: vec2<f32>= ...` is rejected at that
// site only.
func (c *Ctx) runTemplateClose(r *Report, rule string, pkg string) {
	n, helpers := 0, 0
	var helper *types.Func
	for _, fn := range c.allFuncs() {
		if fn.Pkg.Rel != pkg || fn.Obj == nil {
			continue
		}
		ge, gge := false, false
		ast.Inspect(fn.Decl.Body, func(m ast.Node) bool {
			if id, ok := m.(*ast.Ident); ok {
				switch irConstNameAny(fn.Pkg.Info, id) {
				case "TokenGreaterEqual":
					ge = true
				case "TokenGreaterGreaterEqual":
					gge = true
				}
			}
			return true
		})
		if ge && gge && len(fn.Decl.Body.List) <= 8 && fn.Obj.Type().(*types.Signature).Params().Len() == 0 {
			helper = fn.Obj
			helpers++
		}
	}
	r.inst("template.close.helper", helpers)
	if helper == nil {
		return
	}
	for _, fn := range c.allFuncs() {
		if fn.Pkg.Rel != pkg || fn.Obj == helper {
			continue
		}
		info := fn.Pkg.Info
		ord := 0
		ast.Inspect(fn.Decl.Body, func(m ast.Node) bool {
			call, ok := m.(*ast.CallExpr)
			if !ok {
				return true
			}
			f := calleeOf(info, call)
			if f == nil {
				return true
			}
			if f.Origin() == helper {
				n++
				ord++
				r.ok(rule, fn.id()+":close#"+itoa(ord), c.pos(call.Pos()), "")
				return true
			}
			// a direct expectation of TokenGreater (a function whose result is an error / *ParseError, not a bool test)
			if len(call.Args) == 1 && irConstNameAny(info, call.Args[0]) == "TokenGreater" {
				sig := f.Type().(*types.Signature)
				if sig.Results().Len() == 1 {
					if _, isPtr := sig.Results().At(0).Type().(*types.Pointer); isPtr {
						n++
						ord++
						r.viol(rule, fn.id()+":close#"+itoa(ord), c.pos(call.Pos()), fn.id()+" expects the '>' that ends a template list with "+f.Name()+"(TokenGreater) instead of "+helper.Name()+"(): a list directly followed by '=' (lexed as '>=') is rejected here")
					}
				}
			}
			return true
		})
	}
	r.inst("template.close", n)
}

// helper.dedupscope (C03-C05): a backend emits each helper function (wrapped
// math overloads, constructors ...) once per MODULE. The set that remembers
// which helpers have been written must therefore live as long as the module
// is being written: a map that is created inside a function that runs once per
// ir.Function (it has a *ir.Function parameter) and is used as the written-set
// of an emission loop (lookup; continue when present; insert; emit) forgets
// between functions, and two functions that need the same helper get it defined
// twice (a redefinition error in the target language).
func (c *Ctx) runHelperDedupScope(r *Report, rule string, pkgs func(string) bool) {
	n := 0
	for _, fn := range c.allFuncs() {
		if !pkgs(fn.Pkg.Rel) || fn.Obj == nil {
			continue
		}
		info := fn.Pkg.Info
		sig := fn.Obj.Type().(*types.Signature)
		perFunction := false
		for i := 0; i < sig.Params().Len(); i++ {
			if p, ok := sig.Params().At(i).Type().(*types.Pointer); ok && irTypeName(p.Elem()) == "Function" {
				perFunction = true
			}
		}
		if !perFunction {
			continue
		}
		// only functions that also keep a written-set in a receiver field (module-lifetime helper writers)
		hasFieldSet := false
		ast.Inspect(fn.Decl.Body, func(m ast.Node) bool {
			if ifs, ok := m.(*ast.IfStmt); ok && ifs.Init != nil {
				if as, ok := ifs.Init.(*ast.AssignStmt); ok && len(as.Rhs) == 1 && len(as.Lhs) == 2 {
					if ix, ok := ast.Unparen(as.Rhs[0]).(*ast.IndexExpr); ok {
						if se, ok := ast.Unparen(ix.X).(*ast.SelectorExpr); ok {
							if v, ok := info.Uses[se.Sel].(*types.Var); ok && v.IsField() {
								hasFieldSet = true
							}
						}
					}
				}
			}
			return true
		})
		if !hasFieldSet {
			continue
		}
		// written-set idiom: if _, done := M[key]; done { continue }  ...  M[key] = struct{}{}
		ast.Inspect(fn.Decl.Body, func(m ast.Node) bool {
			ifs, ok := m.(*ast.IfStmt)
			if !ok || ifs.Init == nil || len(ifs.Body.List) != 1 {
				return true
			}
			if br, ok := ifs.Body.List[0].(*ast.BranchStmt); !ok || br.Tok != token.CONTINUE {
				return true
			}
			as, ok := ifs.Init.(*ast.AssignStmt)
			if !ok || len(as.Rhs) != 1 || len(as.Lhs) != 2 {
				return true
			}
			ix, ok := ast.Unparen(as.Rhs[0]).(*ast.IndexExpr)
			if !ok {
				return true
			}
			if _, isMap := info.TypeOf(ix.X).Underlying().(*types.Map); !isMap {
				return true
			}
			// "continue when PRESENT" (a written-set), not "continue when absent" (a filter)
			condID, ok1 := ast.Unparen(ifs.Cond).(*ast.Ident)
			okID, ok2 := as.Lhs[1].(*ast.Ident)
			if !ok1 || !ok2 || info.Uses[condID] != info.Defs[okID] {
				return true
			}
			// does the loop body emit text after the guard? (a call with a string literal containing '(' )
			emits := false
			ast.Inspect(fn.Decl.Body, func(k ast.Node) bool {
				if call, ok := k.(*ast.CallExpr); ok && call.Pos() > ifs.End() {
					if se, ok := call.Fun.(*ast.SelectorExpr); ok && (strings.HasPrefix(se.Sel.Name, "write") || strings.HasPrefix(se.Sel.Name, "Write")) {
						emits = true
					}
					for _, a := range call.Args {
						if bl, ok := ast.Unparen(a).(*ast.BasicLit); ok && bl.Kind == token.STRING && strings.Contains(bl.Value, "(") {
							emits = true
						}
					}
				}
				return !emits
			})
			if !emits {
				return true
			}
			n++
			cons := fn.id() + ":" + noSpace(types.ExprString(ix.X))
			switch x := ast.Unparen(ix.X).(type) {
			case *ast.Ident:
				if v, ok := info.Uses[x].(*types.Var); ok && !v.IsField() && v.Pos() > fn.Decl.Pos() && v.Pos() < fn.Decl.End() {
					r.viol(rule, cons, c.pos(ifs.Pos()), fn.id()+" remembers which helper definitions it has written in the local map "+x.Name+", but it runs once per function of the module: a helper needed by two functions is defined twice")
					return true
				}
			}
			r.ok(rule, cons, c.pos(ifs.Pos()), "")
			return true
		})
	}
	r.inst("helper.dedupscope", n)
}

// image.coordmerge (C03): HLSL addresses a texel of an arrayed texture with ONE
// vector subscript, tex[int3(xy, layer)]. A function of the HLSL writer that
// writes the ArrayIndex operand of an image statement / expression must compose
// it with the coordinate in a vector constructor (a literal spelling "%d(", or
// the coordinate helper that does so); written as a second, comma-separated
// subscript operand (tex[xy, layer]) the comma is the C comma operator and the
// subscript is the layer alone.
func (c *Ctx) runImageCoordMerge(r *Report, rule string, pkg string) {
	n := 0
	// the helper(s): functions with an arrayIndex *ExpressionHandle parameter that emit a "%d(" constructor
	helpers := map[*types.Func]bool{}
	hasCtor := func(fi *funcInfo) bool {
		found := false
		ast.Inspect(fi.Decl.Body, func(k ast.Node) bool {
			if bl, ok := k.(*ast.BasicLit); ok && bl.Kind == token.STRING && strings.Contains(bl.Value, "%d(") {
				found = true
			}
			return !found
		})
		return found
	}
	for _, fn := range c.allFuncs() {
		if fn.Pkg.Rel == pkg && fn.Obj != nil && hasCtor(fn) {
			sig := fn.Obj.Type().(*types.Signature)
			for i := 0; i < sig.Params().Len(); i++ {
				if p, ok := sig.Params().At(i).Type().(*types.Pointer); ok && irTypeName(p.Elem()) == "ExpressionHandle" {
					helpers[fn.Obj] = true
				}
			}
		}
	}
	for _, fn := range c.allFuncs() {
		if fn.Pkg.Rel != pkg || fn.Obj == nil || helpers[fn.Obj] {
			continue
		}
		info := fn.Pkg.Info
		// writes *X.ArrayIndex directly?
		var site ast.Node
		usesHelper := false
		ast.Inspect(fn.Decl.Body, func(k ast.Node) bool {
			call, ok := k.(*ast.CallExpr)
			if !ok {
				return true
			}
			if f := calleeOf(info, call); f != nil && helpers[f.Origin()] {
				usesHelper = true
			}
			isWriter := false
			if f := calleeOf(info, call); f != nil {
				sg := f.Type().(*types.Signature)
				isWriter = sg.Params().Len() == 1 && sg.Results().Len() == 1 && irTypeName(sg.Params().At(0).Type()) == "ExpressionHandle" && sg.Results().At(0).Type().String() == "error"
			}
			for _, a := range call.Args {
				if !isWriter {
					break
				}
				if st, ok := ast.Unparen(a).(*ast.StarExpr); ok {
					if se, ok := ast.Unparen(st.X).(*ast.SelectorExpr); ok && se.Sel.Name == "ArrayIndex" && site == nil {
						site = call
					}
				}
			}
			return true
		})
		if site == nil {
			continue
		}
		n++
		cons := fn.id() + ":ArrayIndex"
		if hasCtor(fn) || usesHelper {
			r.ok(rule, cons, c.pos(site.Pos()), "")
		} else {
			r.viol(rule, cons, c.pos(site.Pos()), fn.id()+" writes the array index of an arrayed texture as a separate, comma-separated subscript operand instead of composing intN(coordinate, layer): in HLSL tex[a, b] is tex[b]")
		}
	}
	r.inst("image.coordmerge", n)
}

// glsl.samplerprecision (C05): GLSL ES has no default precision for most sampler
// types (and lowp for sampler2D), so every opaque uniform the writer declares
// carries an explicit precision slot filled from the ES flag. A declaration
// literal with "uniform " whose arguments include a combined sampler's GLSL type
// name must have the adjacent "%s%s" pair (precision, type): siblings that
// declare the same kind of uniform without the slot produce ES shaders that do
// not compile or sample at low precision.
func (c *Ctx) runSamplerPrecision(r *Report, rule string, pkg string) {
	n := 0
	for _, fn := range c.allFuncs() {
		if fn.Pkg.Rel != pkg {
			continue
		}
		ord := 0
		ast.Inspect(fn.Decl.Body, func(m ast.Node) bool {
			call, ok := m.(*ast.CallExpr)
			if !ok || len(call.Args) < 2 {
				return true
			}
			lit, ok := ast.Unparen(call.Args[0]).(*ast.BasicLit)
			if !ok || lit.Kind != token.STRING || !strings.Contains(lit.Value, "uniform ") {
				return true
			}
			samplerArg := false
			for _, a := range call.Args[1:] {
				if se, ok := ast.Unparen(a).(*ast.SelectorExpr); ok && se.Sel.Name == "glslTypeName" {
					samplerArg = true
				}
			}
			if !samplerArg {
				return true
			}
			n++
			ord++
			cons := fn.id() + ":uniform#" + itoa(ord)
			if strings.Contains(lit.Value, "uniform %s%s") {
				r.ok(rule, cons, c.pos(call.Pos()), "")
			} else {
				r.viol(rule, cons, c.pos(call.Pos()), fn.id()+" declares a combined sampler uniform with "+lit.Value+", which has no precision slot: on ES targets the other sampler declarations say highp, this one does not")
			}
			return true
		})
	}
	r.inst("glsl.samplerprecision", n)
}

// errflow.nilonly (C11): `if v, err := f(t); err == nil { use v }` with no else
// branch discards the error. Where t is a type the user wrote (the argument is
// a parser Type node) the error means "undeclared / malformed type": dropping it
// compiles `let x: bogus = 1;` as if there were no annotation. Expected zero;
// the total number of calls that resolve a user-written type is the floor.
func (c *Ctx) runErrNilOnly(r *Report, rule string, pkgs func(string) bool, exceptions map[string]string) {
	n := 0
	errorT := types.Universe.Lookup("error").Type()
	for _, fn := range c.allFuncs() {
		if !pkgs(fn.Pkg.Rel) {
			continue
		}
		info := fn.Pkg.Info
		ord := map[string]int{}
		ast.Inspect(fn.Decl.Body, func(m ast.Node) bool {
			ifs, ok := m.(*ast.IfStmt)
			if !ok || ifs.Init == nil || ifs.Else != nil {
				return true
			}
			as, ok := ifs.Init.(*ast.AssignStmt)
			if !ok || as.Tok != token.DEFINE || len(as.Rhs) != 1 || len(as.Lhs) < 2 {
				return true
			}
			call, ok := ast.Unparen(as.Rhs[0]).(*ast.CallExpr)
			if !ok {
				return true
			}
			eid, ok := as.Lhs[len(as.Lhs)-1].(*ast.Ident)
			if !ok || eid.Name == "_" {
				return true
			}
			eobj := info.Defs[eid]
			if eobj == nil || !types.Identical(eobj.Type(), errorT) {
				return true
			}
			be, ok := ast.Unparen(ifs.Cond).(*ast.BinaryExpr)
			if !ok || be.Op != token.EQL {
				return true
			}
			xi, ok := ast.Unparen(be.X).(*ast.Ident)
			if !ok || info.Uses[xi] != eobj {
				return true
			}
			if yi, ok := ast.Unparen(be.Y).(*ast.Ident); !ok || yi.Name != "nil" {
				return true
			}
			f := calleeOf(info, call)
			name := "?"
			if f != nil {
				name = f.Name()
			}
			// only lookups of a user-written TYPE (an argument whose static type is the parser's Type node)
			userType := false
			for _, a := range call.Args {
				if t := info.TypeOf(a); t != nil {
					if nt := namedOf(t); nt != nil && nt.Obj().Name() == "Type" && nt.Obj().Pkg() != nil && strings.HasSuffix(nt.Obj().Pkg().Path(), "/parser") {
						userType = true
					}
				}
			}
			if !userType {
				return true
			}
			n++
			key := fn.id() + ":" + name
			ord[key]++
			cons := key + "#" + itoa(ord[key])
			if why := exceptions[cons]; why != "" {
				r.exc(rule, cons, c.pos(ifs.Pos()), why)
			} else {
				r.viol(rule, cons, c.pos(ifs.Pos()), fn.id()+" uses the result of "+name+" only when it succeeded and drops its error otherwise (no else branch, the error is not looked at again): an invalid input at this point is accepted silently")
			}
			return true
		})
	}
	// vacuity: calls that resolve a user-written type at all
	total := 0
	for _, fn := range c.allFuncs() {
		if !pkgs(fn.Pkg.Rel) {
			continue
		}
		ast.Inspect(fn.Decl.Body, func(m ast.Node) bool {
			if call, ok := m.(*ast.CallExpr); ok {
				for _, a := range call.Args {
					if t := fn.Pkg.Info.TypeOf(a); t != nil {
						if nt := namedOf(t); nt != nil && nt.Obj().Name() == "Type" && nt.Obj().Pkg() != nil && strings.HasSuffix(nt.Obj().Pkg().Path(), "/parser") {
							total++
						}
					}
				}
			}
			return true
		})
	}
	r.inst("errflow.usertype-lookups", total)
	r.inst("errflow.nilonly", n)
}

// size.signcheck (C11): the constant evaluator answers a signed int64. A value
// obtained from it that is converted to an unsigned integer type (an array size,
// a count) must first be tested for negativity in the same function (a
// comparison `< 0` / `<= 0` / `> 0` / `>= 1` on the same variable): uint64(-1)
// is 18446744073709551615, and `array<i32, -1>` then becomes an array of
// 4294967295 elements instead of the "size must be positive" diagnostic.
var sizeSignExceptions = map[string]string{
	"wgsl/internal/lower.Lowerer.evalConstBinaryExpr:val#1": "returns the two's-complement bits together with the scalar kind (a bit reinterpretation, not a size)",
}

func (c *Ctx) runSizeSignCheck(r *Report, rule string, pkgs func(string) bool) {
	n := 0
	for _, fn := range c.allFuncs() {
		if !pkgs(fn.Pkg.Rel) {
			continue
		}
		info := fn.Pkg.Info
		// signed results of evaluator calls: v in `_, v, err := l.evalConstant...(...)`
		evalVars := map[types.Object]string{}
		ast.Inspect(fn.Decl.Body, func(m ast.Node) bool {
			as, ok := m.(*ast.AssignStmt)
			if !ok || len(as.Rhs) != 1 || len(as.Lhs) < 2 {
				return true
			}
			call, ok := ast.Unparen(as.Rhs[0]).(*ast.CallExpr)
			if !ok {
				return true
			}
			f := calleeOf(info, call)
			if f == nil || !strings.HasPrefix(f.Name(), "evalConst") {
				return true
			}
			for _, l := range as.Lhs {
				if id, ok := l.(*ast.Ident); ok && id.Name != "_" {
					if o := info.ObjectOf(id); o != nil {
						if b, ok := o.Type().Underlying().(*types.Basic); ok && b.Kind() == types.Int64 {
							evalVars[o] = f.Name()
						}
					}
				}
			}
			return true
		})
		if len(evalVars) == 0 {
			continue
		}
		for v, src := range evalVars {
			// conversions to unsigned
			var convs []ast.Node
			signTest := false
			ast.Inspect(fn.Decl.Body, func(m ast.Node) bool {
				switch x := m.(type) {
				case *ast.ReturnStmt:
					// only conversions that ARE the function's (unsigned) result: "evaluate as unsigned" helpers
					for _, res := range x.Results {
						if cv, ok := ast.Unparen(res).(*ast.CallExpr); ok && len(cv.Args) == 1 {
							if tv, ok := info.Types[cv.Fun]; ok && tv.IsType() {
								if b, ok := tv.Type.Underlying().(*types.Basic); ok && b.Info()&types.IsUnsigned != 0 {
									if id, ok := ast.Unparen(cv.Args[0]).(*ast.Ident); ok && info.Uses[id] == v {
										convs = append(convs, cv)
									}
								}
							}
						}
					}
				case *ast.BinaryExpr:
					if id, ok := ast.Unparen(x.X).(*ast.Ident); ok && info.Uses[id] == v {
						if k, ok := constInt(info, x.Y); ok {
							switch {
							case (x.Op == token.LSS || x.Op == token.LEQ || x.Op == token.GTR || x.Op == token.GEQ) && (k == 0 || k == 1):
								signTest = true
							}
						}
					}
				}
				return true
			})
			for i, cv := range convs {
				n++
				cons := fn.id() + ":" + v.Name() + "#" + itoa(i+1)
				if signTest {
					r.ok(rule, cons, c.pos(cv.Pos()), "")
				} else if why := sizeSignExceptions[cons]; why != "" {
					r.exc(rule, cons, c.pos(cv.Pos()), why)
				} else {
					r.viol(rule, cons, c.pos(cv.Pos()), fn.id()+" converts "+v.Name()+", the signed result of "+src+", to an unsigned type without testing its sign: a negative constant becomes a huge positive size instead of being rejected")
				}
			}
		}
	}
	r.inst("size.signcheck", n)
}

// sample.offsetkept (C01, C09): every WGSL texture sampling builtin except
// textureSampleBaseClampToEdge takes an optional trailing `offset`. A lowering
// function that builds ir.ExprImageSample from the call's argument list sets
// the Offset field (from an argument) - a literal without the Offset key accepts
// the argument and drops it - unless it sets ClampToEdge (the builtin without an
// offset parameter).
func (c *Ctx) runSampleOffsetKept(r *Report, rule string, pkg string) {
	n := 0
	for _, fn := range c.allFuncs() {
		if fn.Pkg.Rel != pkg {
			continue
		}
		info := fn.Pkg.Info
		takesArgs := false
		if fn.Decl.Type.Params != nil {
			for _, f := range fn.Decl.Type.Params.List {
				if sl, ok := info.TypeOf(f.Type).(*types.Slice); ok {
					if nt := namedOf(sl.Elem()); nt != nil && nt.Obj().Name() == "Expr" {
						takesArgs = true
					}
				}
			}
		}
		if !takesArgs {
			continue
		}
		ord := 0
		ast.Inspect(fn.Decl.Body, func(m ast.Node) bool {
			cl, ok := m.(*ast.CompositeLit)
			if !ok || irTypeName(info.TypeOf(cl)) != "ExprImageSample" {
				return true
			}
			keys := map[string]bool{}
			for _, el := range cl.Elts {
				if kv, ok := el.(*ast.KeyValueExpr); ok {
					if id, ok := kv.Key.(*ast.Ident); ok {
						keys[id.Name] = true
					}
				}
			}
			n++
			ord++
			cons := fn.id() + ":ExprImageSample#" + itoa(ord)
			switch {
			case keys["Offset"]:
				r.ok(rule, cons, c.pos(cl.Pos()), "")
			case keys["ClampToEdge"]:
				r.triv(rule, cons, c.pos(cl.Pos()), "textureSampleBaseClampToEdge has no offset parameter")
			default:
				r.viol(rule, cons, c.pos(cl.Pos()), fn.id()+" builds ExprImageSample from the argument list without an Offset: the builtin's optional trailing offset is accepted and dropped")
			}
			return true
		})
	}
	r.inst("sample.offsetkept", n)
}

// image.coordbuilder (C05): GLSL image functions take signed integer
// coordinates with the array layer as the last component. The writer has one
// function that builds that text (it receives the array index as a
// *ExpressionHandle and the *ImageType); every function that writes the
// Coordinate operand of a storage-image access (ExprImageLoad, StmtImageStore,
// StmtImageAtomic) must obtain the coordinate text from it - a hand-rolled copy
// forgets the unsigned-to-signed conversion or the layer's vector width.
func (c *Ctx) runImageCoordBuilder(r *Report, rule string, pkg string) {
	helpers := map[*types.Func]bool{}
	for _, fn := range c.allFuncs() {
		if fn.Pkg.Rel != pkg || fn.Obj == nil {
			continue
		}
		sig := fn.Obj.Type().(*types.Signature)
		hasIdx, hasImg := false, false
		for i := 0; i < sig.Params().Len(); i++ {
			if p, ok := sig.Params().At(i).Type().(*types.Pointer); ok {
				switch irTypeName(p.Elem()) {
				case "ExpressionHandle":
					hasIdx = true
				case "ImageType":
					hasImg = true
				}
			}
		}
		if hasIdx && hasImg {
			helpers[fn.Obj] = true
		}
	}
	r.inst("image.coordHelpers", len(helpers))
	access := map[string]bool{"ExprImageLoad": true, "StmtImageStore": true, "StmtImageAtomic": true}
	n := 0
	for _, fn := range c.allFuncs() {
		if fn.Pkg.Rel != pkg || fn.Obj == nil || fn.Decl.Body == nil || helpers[fn.Obj] {
			continue
		}
		sig := fn.Obj.Type().(*types.Signature)
		var node *types.Var
		for i := 0; i < sig.Params().Len(); i++ {
			if access[irTypeName(sig.Params().At(i).Type())] {
				node = sig.Params().At(i)
			}
		}
		if node == nil {
			continue
		}
		info := fn.Pkg.Info
		writesCoord, usesHelper := false, false
		var site ast.Node
		ast.Inspect(fn.Decl.Body, func(k ast.Node) bool {
			call, ok := k.(*ast.CallExpr)
			if !ok {
				return true
			}
			f := calleeOf(info, call)
			if f == nil {
				return true
			}
			for _, a := range call.Args {
				se, ok := ast.Unparen(a).(*ast.SelectorExpr)
				if !ok || se.Sel.Name != "Coordinate" {
					continue
				}
				if id, ok := ast.Unparen(se.X).(*ast.Ident); !ok || info.ObjectOf(id) != node {
					continue
				}
				if helpers[f.Origin()] {
					usesHelper = true
				} else if f.Name() == "writeExpression" {
					writesCoord = true
					if site == nil {
						site = call
					}
				}
			}
			return true
		})
		if !writesCoord {
			continue
		}
		n++
		cons := fn.id() + ":Coordinate"
		if usesHelper {
			r.ok(rule, cons, c.pos(site.Pos()), "")
		} else {
			r.viol(rule, cons, c.pos(site.Pos()), fn.id()+" writes the coordinate of a storage-image access without the coordinate builder its siblings use: an unsigned coordinate is not converted to the signed vector the GLSL image functions take, and the layer is merged by hand")
		}
	}
	r.inst(rule, n)
}
