package main

func init() { register("C11", propC11) }

func propC11(c *Ctx, r *Report) {
	r.Clauses = append(r.Clauses,
		"scope discipline (E7, go/cfg): every compound-statement body (if/else branches, loop bodies, each switch clause, nested blocks) is lowered in a scope opened for it alone, and scopes are popped on every successful path - otherwise a name declared in one block stays visible in a sibling block and a use of an undeclared identifier there is accepted")
	r.NotDecided = append(r.NotDecided,
		"that each semantic check is applied on every lowering path; argument count/type checks; const_assert; binding pairing; swizzle checks; error positions")
	c.runBalance(r, "pairing.scope", scopeBracket)
	c.runScopePerBlock(r, "scope.perblock", lowerScopeSpec)
	r.floor("pairing.pushScope/popScope", 5)
	r.floor("scope.bodies", 8)
	r.Clauses = append(r.Clauses,
		"no silent expectation (E10): no parser helper that expects a token kind can fail without returning or recording an error",
		"no dropped diagnostic (E10): no call on the parse / lower / validate path discards an error or *ParseError result")
	c.runErrflow(r, inPkgs("wgsl", "ir", "naga", "internal/registry"), droppedErrExceptions)
	r.floor("errflow.parser-functions", 40)
	r.Clauses = append(r.Clauses, "block-scoped local names in dependency ordering (E7): the function of the parser's dependency collector that walks the statements of a block gives them a set of local names of its own, so a name declared inside a block does not hide a module-scope declaration after the block (acceptance must not depend on declaration order)")
	c.runDepBlockScope(r, "scope.depblock")
	r.floor("scope.depblock", 1)
	r.Clauses = append(r.Clauses, "swizzle width (E20): every lowerer function that maps a swizzle letter to a component with the raw letter mapper also compares the component with the vector's size, so `v.z` on a vec2 is rejected on every path (value and reference context)")
	c.runSwizzleChecked(r, "swizzle.checked")
	r.floor("swizzle.checked", 2)
	r.Clauses = append(r.Clauses, flagNestClause, forHeaderClause)
	c.runFlagNest(r, "flag.nest", inPkgs("ir", "wgsl"), flagNestExceptions)
	r.floor("flag.nest", 2)
	c.runForHeader(r, "parse.forheader", "wgsl/internal/parser")
	r.floor("parse.forheader", 8)
	r.Clauses = append(r.Clauses, "sizes are not negative (E49): a helper that returns the constant evaluator's signed result converted to an unsigned type tests its sign first")
	c.runSizeSignCheck(r, "size.signcheck", inPkgs("wgsl", "ir"))
	r.floor("size.signcheck", 3)
	r.Clauses = append(r.Clauses, "type lookups report (E49): no lookup of a user-written type uses its result only on success and drops the error")
	c.runErrNilOnly(r, "errflow.nilonly", inPkgs("wgsl"), nil)
	r.Clauses = append(r.Clauses, innerFirstClause+" - otherwise const_assert and case selectors are judged against the shadowed module-scope constant")
	c.runInnerFirst(r, "lookup.innerfirst", "wgsl/internal/lower", nil)
	r.floor("lookup.innerfirst", 2)
	r.Clauses = append(r.Clauses, leaveCleanClause)
	c.runLeaveClean(r, "scope.leaveclean", lowerResetScopes[0])
	r.floor("scope.leaveclean", 1)
	r.Clauses = append(r.Clauses, nameDefaultClause)
	c.runNameSilentDefault(r, "name.silentdefault", "wgsl/internal/lower", nil)
	r.floor("name.silentdefault", 1)
	r.floor("errflow.usertype-lookups", 20)
	r.Clauses = append(r.Clauses, argsRoleClause)
	c.runArgsNameRole(r, "args.namerole", inPkgs("wgsl", "ir"))
	r.floor("args.namerole", 20)
	r.Clauses = append(r.Clauses, epCoverClause)
	c.runEPFunctionsCovered(r, "epfunctions.covered", inPkgs("ir", "dxil/internal/passes"), nil)
	r.floor("epfunctions.covered", 4)
	r.Clauses = append(r.Clauses, "token characters (E20): in the lexer's punctuation scanner the characters consumed on the path to every addToken(K) spell exactly the WGSL token K (a delimiter or semicolon can only be diagnosed as missing if the tokens around it are cut at the right places)")
	c.runLexerTokenChars(r, "lex.tokenchars")
	r.floor("lex.tokenchars", 40)
	r.Clauses = append(r.Clauses, "syntax-tree walkers (E3): every function reachable from the parser / lowerer entry points that walks the parser's tree (a type switch over Expr, Stmt, Type or Decl nodes using every child in >= 3/4 of its arms) uses every child node of every variant it has an arm for - a child that is only nil-checked or narrowed to one variant by a type assertion is flagged - and, when it has no default arm, has an arm for every variant that has children (dependency ordering, statement / expression / type lowering, constant evaluators)")
	c.runFrontendASTWalkers(r, "frontend")
	r.floor("frontend.astwalkers", 8)
	r.Clauses = append(r.Clauses, "define after initializer (E7, go/cfg): in the parser's dependency walk and the lowerer, no call that consumes the initializer or type of a declaration node (d.Init / d.Type as an argument) is reachable in the control-flow graph from a store that defines the declaration's name (a store into a string-keyed map with key d.Name) - the initializer of let/var/const/override is resolved outside the scope of the name it declares (let x = x + 1 reads the outer x; a self-referential initializer can otherwise recurse without end)")
	c.runDefAfterInit(r, "scope.defafterinit", inPkgs("wgsl/internal/lower", parserRel))
	r.floor("scope.definitions", 12)
	r.Clauses = append(r.Clauses, "scope restore completeness (E5/E7): every string-keyed map of the lowerer into which a declaration function stores a binding under the key it hands to scopeSet is written (assigned or deleted) by popScope - a binding map that block exit does not restore lets a block-local name outlive its block and keeps an inner declaration from shadowing an outer one")
	r.Clauses = append(r.Clauses, "shadowing hygiene (E7): the scope-entry function that saves a shadowed binding's per-name attributes (constant, var, pointer-let, abstract initialiser ...) also clears each of them for the new binding, so no attribute of an outer declaration leaks onto an inner declaration of the same name")
	c.runScopeRestore(r, "scope.restore", "wgsl/internal/lower", "Lowerer", "scopeSet", "popScope", map[string]string{"localDecls": "unused-variable warning bookkeeping (declaration spans): read only by the warning pass, never by name resolution"})
	r.floor("scope.bindingmaps", 4)
}

var droppedErrExceptions = map[string]string{}

const nameDefaultClause = "unknown names are refused (E91): a lowerer function that translates a name written in the source into an IR enumerant (table lookup or switch over the spelling) and whose fall-through answer is an ordinary enumerant reports the unknown name through addError - a misspelt builtin value, address space, access mode, texel format or sampled type is an undeclared identifier, not the default"

const leaveCleanClause = "function scope ends with the function (E95): every name table of the lowerer that is cleared on entry to lowerFunction and that a function reachable from a module-scope handler (constants, const_assert, overrides, globals - run by the driver between functions) looks into is also cleared when lowerFunction is left - a module-scope const_assert after `fn f() { let N = 5; }` must see the module's N"
