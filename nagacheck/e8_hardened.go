package main

// hardened-operator routing: in every backend function that dispatches on all
// binary operators, the code keyed on BinaryDivide / BinaryModulo (a case arm or
// an if-condition comparing the operator with that constant) must reach the
// integer wrapper (naga_div / naga_mod helper, or the SPIR-V wrapped-function
// table): an emitter without such a path can only print the raw operator, which
// is undefined for x/0 and INT_MIN/-1 in the target languages.

import (
	"go/ast"
	"go/constant"
	"go/types"
	"strings"
)

type hardenedOp struct {
	Const  string   // ir constant that keys the arm
	Tokens []string // any of these must be mentioned in code keyed on Const
}

func (c *Ctx) runHardened(r *Report, rule string, pkgs []string, ops []hardenedOp, enum string) {
	for _, rel := range pkgs {
		for _, op := range ops {
			construct := rel + ":" + op.Const
			found := false
			var where *funcInfo
			keyed := 0
			for _, fn := range c.allFuncs() {
				if fn.Pkg.Rel != rel {
					continue
				}
				info := fn.Pkg.Info
				mentionsToken := func(n ast.Node, depth int) bool { return false }
				var mt func(n ast.Node, depth int) bool
				mt = func(n ast.Node, depth int) bool {
					hit := false
					ast.Inspect(n, func(m ast.Node) bool {
						if hit {
							return false
						}
						switch x := m.(type) {
						case *ast.BasicLit:
							if tv, ok := info.Types[x]; ok && tv.Value != nil && tv.Value.Kind() == constant.String {
								for _, t := range op.Tokens {
									if strings.Contains(constant.StringVal(tv.Value), t) {
										hit = true
									}
								}
							}
						case *ast.Ident:
							for _, t := range op.Tokens {
								if strings.Contains(x.Name, t) {
									hit = true
								}
							}
							if k, ok := info.Uses[x].(*types.Const); ok && k.Val().Kind() == constant.String {
								for _, t := range op.Tokens {
									if strings.Contains(constant.StringVal(k.Val()), t) {
										hit = true
									}
								}
							}
						case *ast.SelectorExpr:
							for _, t := range op.Tokens {
								if strings.Contains(x.Sel.Name, t) {
									hit = true
								}
							}
						case *ast.CallExpr:
							if depth < 2 {
								if callee := calleeOf(info, x); callee != nil && callee.Pkg() == fn.Obj.Pkg() {
									if fi := c.funcByObj(callee); fi != nil && fi != fn {
										sub := fi.Pkg.Info
										_ = sub
										old := info
										info = fi.Pkg.Info
										if mt(fi.Decl.Body, depth+1) {
											hit = true
										}
										info = old
									}
								}
							}
						}
						return !hit
					})
					return hit
				}
				mentionsToken = mt
				isKey := func(e ast.Expr) bool {
					return irConstName(info, e) == op.Const
				}
				ast.Inspect(fn.Decl.Body, func(n ast.Node) bool {
					switch x := n.(type) {
					case *ast.CaseClause:
						for _, e := range x.List {
							if isKey(e) {
								keyed++
								for _, st := range x.Body {
									if mentionsToken(st, 0) {
										found, where = true, fn
									}
								}
							}
						}
					case *ast.IfStmt:
						keyedIf := false
						ast.Inspect(x.Cond, func(m ast.Node) bool {
							if be, ok := m.(*ast.BinaryExpr); ok {
								if isKey(be.X) || isKey(be.Y) {
									keyedIf = true
								}
							}
							return true
						})
						if keyedIf {
							keyed++
							if mentionsToken(x.Body, 0) || mentionsToken(x.Cond, 0) {
								found, where = true, fn
							}
						}
					}
					return true
				})
			}
			switch {
			case found:
				r.ok(rule, construct, c.pos(where.Decl.Pos()), "code keyed on "+op.Const+" in "+where.id()+" reaches the wrapper")
			case keyed == 0:
				r.viol(rule, construct, "", "package "+rel+" has no code keyed on ir."+op.Const+": the hardened operator cannot be routed to its wrapper")
			default:
				r.viol(rule, construct, "", "no code keyed on ir."+op.Const+" in "+rel+" mentions any of "+strings.Join(op.Tokens, "/")+": the operator is only ever emitted raw")
			}
		}
	}
	r.inst("hardened.ops", len(pkgs)*len(ops))
}

var hardenedBinary = []hardenedOp{
	{Const: "BinaryDivide", Tokens: []string{"naga_div", "NagaDiv", "wrappedFuncIDs", "emitWrappedBinaryOp", "wrappedBinaryOps"}},
	{Const: "BinaryModulo", Tokens: []string{"naga_mod", "NagaMod", "wrappedFuncIDs", "emitWrappedBinaryOp", "wrappedBinaryOps"}},
}

func init() {
	register("C15", propC15)
}

func propC15(c *Ctx, r *Report) {
	r.Clauses = append(r.Clauses,
		"index routing (E8): in a backend function that hands the dynamic index of an ExprAccess to a bounds-check-policy-aware writer on some access path, every path that emits that index does so through a policy-aware writer (no raw hand-off to the generic expression writer)",
		"hardened-operator routing (E8): in each of the SPIR-V, HLSL and MSL backends (GLSL's protective options cover indexing only; C05 excludes GLSL-undefined division) the code keyed on integer-capable Divide and Modulo reaches the div/mod wrapper (helper function or wrapped-function table)")
	r.NotDecided = append(r.NotDecided,
		"that the guard's length expression and comparison are right, coverage of nested access chains / pointer arguments / stores / atomics in HLSL, GLSL and SPIR-V (they write their guards inline), the wrapper bodies, float-to-int conversion clamps, zero initialisation of variables")
	c.runIndexRouting(r, "routing.index", inPkgs("msl/internal/codegen", "hlsl/internal/codegen", "glsl/internal/codegen", "spirv/internal/codegen"))
	c.runHardened(r, "hardened.binary", []string{"spirv/internal/codegen", "hlsl/internal/codegen", "msl/internal/codegen"}, hardenedBinary, "BinaryOperator")
	r.Clauses = append(r.Clauses, "block recursion (E3) of the SPIR-V statement walkers: the scan that decides which workgroup variables the zero-initialisation polyfill covers descends into every nested block")
	c.runBlockWalkers(r, "operands", "spirv", inPkgs("spirv/internal/codegen"), nil)
	r.Clauses = append(r.Clauses, indexLenClause)
	c.runIndexLen(r, "shape.indexlen", inPkgs("msl", "hlsl", "glsl", "spirv"))
	r.floor("shape.indexlen", 5)
	r.Clauses = append(r.Clauses, recursionDepthClause+" - the zero-initialisation of workgroup memory")
	c.runRecursionDepth(r, "recursion.depth", inPkgs("msl", "hlsl", "glsl", "spirv"))
	r.floor("recursion.depth", 3)
	r.Clauses = append(r.Clauses, kindLimitClause+" - the constants the backends print for INT_MIN and the conversion clamps")
	c.runKindLimits(r, "range.kindlimit", inPkgs("msl", "glsl", "hlsl", "spirv", "wgsl"))
	r.floor("range.kindlimit", 10)
	r.Clauses = append(r.Clauses, guardAgreeClause+" - the workgroup zero-initialisation prologue is keyed on the recorded local_invocation_id")
	c.runGuardAgree(r, "guard.agree", inPkgs("msl", "hlsl", "glsl", "spirv"))
	r.floor("guard.agree", 4)
	r.Clauses = append(r.Clauses, depthLikeClause+" - the level-of-detail clamps and size queries of the image bounds-check policies")
	c.runDepthLike(r, "image.depthlike", inPkgs("msl", "glsl", "hlsl", "spirv"))
	r.floor("image.depthlike", 6)
	r.Clauses = append(r.Clauses, boundsStrictClause)
	c.runBoundsStrict(r, "bounds.strict", inPkgs("msl", "glsl", "hlsl", "spirv"))
	r.floor("bounds.strict", 4)
	r.Clauses = append(r.Clauses, typeTextClause+" - the decision to leave a local variable without its zero initialiser")
	c.runTypeByText(r, "type.bytext", inPkgs("msl", "glsl", "hlsl", "spirv"))
	r.floor("type.renderedNames", 50)
	r.Clauses = append(r.Clauses, runtimeArrClause)
	c.runRuntimeArrayShapes(r, "runtimearray.shapes", inPkgs("msl", "glsl", "hlsl", "spirv"))
	r.floor("runtimearray.shapes", 1)
	r.Clauses = append(r.Clauses, memberKeyClause)
	c.runMemberKeyAgree(r, "member.keyagree", "msl/internal/codegen")
	r.floor("member.keyagree", 5)
	r.Clauses = append(r.Clauses, zeroInitClause)
	c.runZeroInitOpVariable(r, "zeroinit.opvariable")
	r.floor("zeroinit.opvariable", 2)
	r.Clauses = append(r.Clauses, optionReadClause+" - the bounds-check policies")
	for _, p := range []string{"spirv/internal/codegen", "msl/internal/codegen", "hlsl/internal/codegen", "glsl/internal/codegen"} {
		c.runOptionRead(r, "option.read", p, func(f string) bool { return strings.HasPrefix(f, "BoundsCheckPolicies.") || strings.Contains(f, "BoundsCheck") || strings.Contains(f, "ZeroInit") || strings.Contains(f, "LoopBounding") }, optionReadExceptions)
	}
	r.floor("option.read", 8)
	r.floor("spirv.Block.walkers", 3)
	r.Clauses = append(r.Clauses, "two-sided guards (E70): a GLSL function that writes a read-zero guard around texelFetch / imageLoad and compares a coordinate, index, level or sample with the extent from above also compares it from below or converts it to unsigned",
		"textures as arguments (E65): the GLSL resolver of an expression's image type also answers for a texture passed as a function argument (otherwise the Restrict policy references a clamped level it never declares)")
	r.Clauses = append(r.Clauses, "clamped once, used clamped (E83): where the SPIR-V emitter clamps a variable's value with UMin, the variable is re-pointed to the clamped result in the same statement list or never read again")
	c.runRawAfterClamp(r, "clamp.rawafter", "spirv/internal/codegen")
	r.floor("clamp.rawafter", 2)
	c.runLowerSide(r, "bounds.lowerside", "glsl/internal/codegen")
	r.floor("bounds.lowerside", 1)
	c.runImageTypeViaGlobal(r, "imagetype.viaglobal", inPkgs("glsl"))
	r.floor("imagetype.viaglobal", 1)
	r.floor("routing.index-sites", 3)
	r.floor("hardened.ops", 6)
}
