package main

// type.bytext (C03-C05, C15): what kind of type a value has is a fact of the IR
// (the TypeInner behind its handle). The rendered NAME of a type contains
// user-chosen identifiers (struct names), so a substring search in it
// (strings.Contains(typeName, "RayQuery")) answers for the user's spelling: a
// struct called MyRayQueryData was taken for a ray query and its local variable
// left without the zero initialiser WGSL requires. No substring predicate may
// be applied to a string obtained from a function that renders a type (one
// that takes an ir.TypeHandle / ir.TypeInner and returns strings).

import (
	"go/ast"
	"go/types"
)

const typeTextClause = "type facts from the IR (E38): no substring predicate (strings.Contains / HasPrefix / HasSuffix / Index) is applied to a string obtained from a function that renders a type; user struct names are part of such strings"

func (c *Ctx) runTypeByText(r *Report, rule string, pkgs func(string) bool) {
	n, renders := 0, 0
	for _, fn := range c.allFuncs() {
		if !pkgs(fn.Pkg.Rel) {
			continue
		}
		info := fn.Pkg.Info
		typeText := map[types.Object]bool{}
		ast.Inspect(fn.Decl.Body, func(m ast.Node) bool {
			as, ok := m.(*ast.AssignStmt)
			if !ok || len(as.Rhs) != 1 {
				return true
			}
			call, ok := ast.Unparen(as.Rhs[0]).(*ast.CallExpr)
			if !ok {
				return true
			}
			f := calleeOf(info, call)
			if f == nil {
				return true
			}
			sig := f.Type().(*types.Signature)
			takesType := false
			for i := 0; i < sig.Params().Len(); i++ {
				switch irTypeName(sig.Params().At(i).Type()) {
				case "TypeHandle", "TypeInner", "Type":
					takesType = true
				}
			}
			if !takesType {
				return true
			}
			for i := 0; i < sig.Results().Len() && i < len(as.Lhs); i++ {
				if b, ok := sig.Results().At(i).Type().Underlying().(*types.Basic); ok && b.Kind() == types.String {
					if id, ok := as.Lhs[i].(*ast.Ident); ok && id.Name != "_" {
						typeText[info.ObjectOf(id)] = true
						renders++
					}
				}
			}
			return true
		})
		if len(typeText) == 0 {
			continue
		}
		ord := 0
		ast.Inspect(fn.Decl.Body, func(m ast.Node) bool {
			call, ok := m.(*ast.CallExpr)
			if !ok || len(call.Args) < 2 {
				return true
			}
			f := calleeOf(info, call)
			if f == nil || f.Pkg() == nil || f.Pkg().Path() != "strings" {
				return true
			}
			switch f.Name() {
			case "Contains", "HasPrefix", "HasSuffix", "Index", "ContainsAny", "Count":
			default:
				return true
			}
			id, ok := ast.Unparen(call.Args[0]).(*ast.Ident)
			if !ok || !typeText[info.Uses[id]] {
				return true
			}
			n++
			ord++
			r.viol(rule, fn.id()+":strings."+f.Name()+"("+id.Name+")#"+itoa(ord), c.pos(call.Pos()), fn.id()+" decides something about a type by searching its rendered name ("+types.ExprString(call)+"): the name of a user struct can contain the same text, the IR type cannot lie")
			return true
		})
	}
	r.inst("type.renderedNames", renders)
	r.inst("type.bytext", n)
}

func init() {
	dumpers["typetext"] = func(c *Ctx, parts []string) {
		r := newReport("dump")
		c.runTypeByText(r, "type.bytext", func(string) bool { return true })
		for _, o := range r.Obs {
			println(o.Verdict, o.Construct, o.Pos, o.Msg)
		}
		println("rendered-name variables:", r.Instances["type.renderedNames"])
	}
}
