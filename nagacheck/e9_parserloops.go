package main

// parser loop termination at end of input: the token cursor does not move at
// EOF (advance is a no-op there), so a loop of the parser that keeps going
// while the current token is NOT some kind (`for !p.check(X)`, `for
// !p.match(X)`, `for p.peek().Kind != X`, or `for {`) only terminates on
// truncated input if it also tests for the end of input. Loops that continue
// while the current token IS a specific kind terminate at EOF by construction.

import (
	"go/ast"
	"go/token"
	"go/types"
	"strings"
)

func (c *Ctx) runParserLoops(r *Report, rule string) {
	n := 0
	for _, fn := range c.allFuncs() {
		if fn.Pkg.Rel != "wgsl/internal/parser" {
			continue
		}
		info := fn.Pkg.Info
		mentionsEOF := func(nd ast.Node) bool {
			hit := false
			ast.Inspect(nd, func(m ast.Node) bool {
				switch x := m.(type) {
				case *ast.Ident:
					if strings.Contains(x.Name, "EOF") || x.Name == "isAtEnd" {
						hit = true
					}
				case *ast.SelectorExpr:
					if strings.Contains(x.Sel.Name, "EOF") || x.Sel.Name == "isAtEnd" {
						hit = true
					}
				}
				return !hit
			})
			return hit
		}
		consumes := func(nd ast.Node) bool {
			hit := false
			ast.Inspect(nd, func(m ast.Node) bool {
				if call, ok := m.(*ast.CallExpr); ok {
					if f := calleeOf(info, call); f != nil && f.Pkg() != nil && relPkg(f.Pkg().Path()) == "wgsl/internal/parser" {
						if sig, ok := f.Type().(*types.Signature); ok && sig.Recv() != nil {
							rn := namedName(sig.Recv().Type())
							if rn == "Parser" || rn == "Lexer" {
								hit = true // any parser method may move the cursor
							}
						}
					}
				}
				return !hit
			})
			return hit
		}
		negatedTokenTest := func(cond ast.Expr) bool {
			neg := false
			ast.Inspect(cond, func(m ast.Node) bool {
				switch x := m.(type) {
				case *ast.UnaryExpr:
					if x.Op == token.NOT {
						if _, ok := ast.Unparen(x.X).(*ast.CallExpr); ok {
							neg = true
						}
					}
				case *ast.BinaryExpr:
					if x.Op == token.NEQ {
						if tv, ok := info.Types[x.X]; ok && namedName(tv.Type) == "TokenKind" {
							neg = true
						}
					}
				}
				return !neg
			})
			return neg
		}
		ord := 0
		ast.Inspect(fn.Decl.Body, func(m ast.Node) bool {
			fs, ok := m.(*ast.ForStmt)
			if !ok {
				return true
			}
			open := fs.Cond == nil || negatedTokenTest(fs.Cond)
			if !open || !(consumes(fs.Body) || (fs.Cond != nil && consumes(fs.Cond))) {
				return true
			}
			n++
			ord++
			construct := fn.id() + ":loop#" + itoa(ord)
			guarded := (fs.Cond != nil && mentionsEOF(fs.Cond)) || mentionsEOF(fs.Body)
			// `for { ...; if !p.match(X) { break } }`: the loop repeats only after a specific token was consumed
			if !guarded && len(fs.Body.List) > 0 {
				if last, ok := fs.Body.List[len(fs.Body.List)-1].(*ast.IfStmt); ok && negatedTokenTest(last.Cond) && len(last.Body.List) > 0 {
					switch st := last.Body.List[len(last.Body.List)-1].(type) {
					case *ast.BranchStmt:
						if st.Tok == token.BREAK {
							guarded = true
						}
					case *ast.ReturnStmt:
						guarded = true
					}
				}
			}
			if guarded {
				r.ok(rule, construct, c.pos(fs.Pos()), "tests for the end of input")
			} else {
				r.viol(rule, construct, c.pos(fs.Pos()), fn.id()+" loops until a token kind is seen (or forever) while consuming tokens, without testing for the end of input: a truncated source makes the parser spin")
			}
			return true
		})
	}
	r.inst("parser.open-loops", n)
}

func init() {
	dumpers["parserloops"] = func(c *Ctx, parts []string) {
		r := newReport("dump")
		c.runParserLoops(r, "abort.parser-loop")
		for _, o := range r.Obs {
			println(o.Verdict, o.Construct, o.Pos)
		}
	}
}

// parse.listloop (C19, C08): WGSL allows a trailing comma in every
// comma-separated list (arguments, parameters, template lists, struct members,
// attributes). A parser loop that goes round again after `match(TokenComma)`
// accepts a trailing comma only if the closing token is tested again before the
// next element is parsed: the loop condition (evaluated on every iteration)
// contains a `check(<token>)` call, or the body starts with an `if` on such a
// call that leaves the loop. A loop that tests the closer only before the first
// element rejects `f(a, b,)` although it accepts `f(a, b)`.
func (c *Ctx) runListLoops(r *Report, rule string) {
	n := 0
	for _, fn := range c.allFuncs() {
		if fn.Pkg.Rel != "wgsl/internal/parser" {
			continue
		}
		info := fn.Pkg.Info
		isParserCall := func(call *ast.CallExpr, name string) bool {
			f := calleeOf(info, call)
			if f == nil || f.Name() != name {
				return false
			}
			sig, ok := f.Type().(*types.Signature)
			return ok && sig.Recv() != nil && namedName(sig.Recv().Type()) == "Parser"
		}
		matchesComma := func(nd ast.Node) bool {
			hit := false
			ast.Inspect(nd, func(m ast.Node) bool {
				switch x := m.(type) {
				case *ast.ForStmt, *ast.RangeStmt, *ast.FuncLit:
					if m != nd {
						return false // an inner loop is judged on its own
					}
				case *ast.CallExpr:
					if isParserCall(x, "match") && len(x.Args) == 1 && irConstName(info, x.Args[0]) == "TokenComma" {
						hit = true
					}
				}
				return !hit
			})
			return hit
		}
		hasCheck := func(nd ast.Node) bool {
			hit := false
			ast.Inspect(nd, func(m ast.Node) bool {
				if call, ok := m.(*ast.CallExpr); ok && (isParserCall(call, "check") || isParserCall(call, "checkAny")) {
					hit = true
				}
				return !hit
			})
			return hit
		}
		ord := 0
		ast.Inspect(fn.Decl.Body, func(m ast.Node) bool {
			fs, ok := m.(*ast.ForStmt)
			if !ok {
				return true
			}
			commaInBody := matchesComma(fs.Body)
			commaInPost := fs.Post != nil && matchesComma(fs.Post)
			if !commaInBody && !commaInPost {
				return true
			}
			n++
			ord++
			cons := fn.id() + ":listloop#" + itoa(ord)
			ok2 := fs.Cond != nil && hasCheck(fs.Cond)
			if !ok2 && len(fs.Body.List) > 0 {
				if first, isIf := fs.Body.List[0].(*ast.IfStmt); isIf && hasCheck(first.Cond) {
					ok2 = true
				}
			}
			if ok2 {
				r.ok(rule, cons, c.pos(fs.Pos()), "")
			} else {
				r.viol(rule, cons, c.pos(fs.Pos()), fn.id()+" parses a comma-separated list but does not test the closing token again after a comma (neither in the loop condition nor at the top of the body): a trailing comma before the closer is rejected")
			}
			return true
		})
	}
	r.inst("parser.listloops", n)
}

func init() {
	dumpers["listloops"] = func(c *Ctx, parts []string) {
		r := newReport("dump")
		c.runListLoops(r, "parse.listloop")
		for _, o := range r.Obs {
			println(o.Verdict, o.Construct, o.Pos)
		}
	}
}

// time.relower (C10): a declaration whose initialiser is kept as syntax (a
// map[string]parser.Expr field of the lowerer) and lowered again at every USE
// of the name, without the result being memoised under that name, costs one
// lowering per use - and since the initialiser may use other such names, a
// chain c1 = c0 + c0; c2 = c1 + c1; ... costs 2^n lowerings for n lines of
// source. A function that passes an entry of such a map (looked up with the
// name) on to a call must also store a result under the same key in a map of
// lowered values (memoisation); otherwise it is reported.
func (c *Ctx) runRelower(r *Report, rule string) {
	n := 0
	for _, fn := range c.allFuncs() {
		if fn.Pkg.Rel != "wgsl/internal/lower" {
			continue
		}
		info := fn.Pkg.Info
		isASTMap := func(t types.Type) bool {
			mt, ok := t.Underlying().(*types.Map)
			if !ok {
				return false
			}
			if b, ok := mt.Key().Underlying().(*types.Basic); !ok || b.Kind() != types.String {
				return false
			}
			nt := namedOf(mt.Elem())
			return nt != nil && nt.Obj().Name() == "Expr" && nt.Obj().Pkg() != nil && relPkg(nt.Obj().Pkg().Path()) == "wgsl/internal/parser"
		}
		// variables bound to an entry of an AST map: v, ok := l.M[key]
		type bind struct {
			field, key string
			pos        token.Pos
		}
		binds := map[types.Object]bind{}
		ast.Inspect(fn.Decl.Body, func(m ast.Node) bool {
			as, ok := m.(*ast.AssignStmt)
			if !ok || len(as.Rhs) != 1 || as.Tok != token.DEFINE {
				return true
			}
			ix, ok := ast.Unparen(as.Rhs[0]).(*ast.IndexExpr)
			if !ok {
				return true
			}
			se, ok := ast.Unparen(ix.X).(*ast.SelectorExpr)
			if !ok {
				return true
			}
			sel := info.Selections[se]
			if sel == nil || sel.Kind() != types.FieldVal || !isASTMap(sel.Type()) {
				return true
			}
			if id, ok := as.Lhs[0].(*ast.Ident); ok && info.Defs[id] != nil {
				binds[info.Defs[id]] = bind{se.Sel.Name, types.ExprString(ix.Index), as.Pos()}
			}
			return true
		})
		if len(binds) == 0 {
			continue
		}
		// memo stores: l.X[key] = ... where X holds lowered values
		memo := map[string]bool{}
		ast.Inspect(fn.Decl.Body, func(m ast.Node) bool {
			as, ok := m.(*ast.AssignStmt)
			if !ok {
				return true
			}
			for _, l := range as.Lhs {
				if ix, ok := ast.Unparen(l).(*ast.IndexExpr); ok {
					if tv, ok := info.Types[ix.X]; ok {
						if mt, ok := tv.Type.Underlying().(*types.Map); ok && !isASTMap(tv.Type) {
							switch irTypeName(mt.Elem()) {
							case "ExpressionHandle", "LiteralValue", "ScalarValue":
								memo[types.ExprString(ix.Index)] = true
							}
						}
					}
				}
			}
			return true
		})
		ast.Inspect(fn.Decl.Body, func(m ast.Node) bool {
			call, ok := m.(*ast.CallExpr)
			if !ok {
				return true
			}
			for _, a := range call.Args {
				id, ok := ast.Unparen(a).(*ast.Ident)
				if !ok {
					continue
				}
				b, ok := binds[info.Uses[id]]
				if !ok {
					continue
				}
				n++
				cons := fn.id() + ":" + b.field + "->" + calleeDesc(info, call)
				if memo[b.key] {
					r.ok(rule, cons, c.pos(call.Pos()), "")
				} else {
					r.viol(rule, cons, c.pos(call.Pos()), fn.id()+" lowers the stored initialiser "+b.field+"["+b.key+"] again at every use of the name and memoises nothing: a chain of n such declarations that each use the previous one twice costs 2^n lowerings")
				}
			}
			return true
		})
	}
	r.inst("time.relower", n)
}
