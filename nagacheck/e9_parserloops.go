package main

// parser loop termination at end of input: the token cursor does not move at
// EOF (advance is a no-op there), so a loop of the parser that keeps going
// while the current token is NOT some kind (`for !p.check(X)`, `for
// !p.match(X)`, `for p.peek().Kind != X`, or `for {`) only terminates on
// truncated input if it also tests for the end of input. Loops that continue
// while the current token IS a specific kind terminate at EOF by construction.

import (
	"go/ast"
	"go/token"
	"go/types"
	"strings"
)

func (c *Ctx) runParserLoops(r *Report, rule string) {
	n := 0
	for _, fn := range c.allFuncs() {
		if fn.Pkg.Rel != "wgsl/internal/parser" {
			continue
		}
		info := fn.Pkg.Info
		mentionsEOF := func(nd ast.Node) bool {
			hit := false
			ast.Inspect(nd, func(m ast.Node) bool {
				switch x := m.(type) {
				case *ast.Ident:
					if strings.Contains(x.Name, "EOF") || x.Name == "isAtEnd" {
						hit = true
					}
				case *ast.SelectorExpr:
					if strings.Contains(x.Sel.Name, "EOF") || x.Sel.Name == "isAtEnd" {
						hit = true
					}
				}
				return !hit
			})
			return hit
		}
		consumes := func(nd ast.Node) bool {
			hit := false
			ast.Inspect(nd, func(m ast.Node) bool {
				if call, ok := m.(*ast.CallExpr); ok {
					if f := calleeOf(info, call); f != nil && f.Pkg() != nil && relPkg(f.Pkg().Path()) == "wgsl/internal/parser" {
						if sig, ok := f.Type().(*types.Signature); ok && sig.Recv() != nil {
							rn := namedName(sig.Recv().Type())
							if rn == "Parser" || rn == "Lexer" {
								hit = true // any parser method may move the cursor
							}
						}
					}
				}
				return !hit
			})
			return hit
		}
		negatedTokenTest := func(cond ast.Expr) bool {
			neg := false
			ast.Inspect(cond, func(m ast.Node) bool {
				switch x := m.(type) {
				case *ast.UnaryExpr:
					if x.Op == token.NOT {
						if _, ok := ast.Unparen(x.X).(*ast.CallExpr); ok {
							neg = true
						}
					}
				case *ast.BinaryExpr:
					if x.Op == token.NEQ {
						if tv, ok := info.Types[x.X]; ok && namedName(tv.Type) == "TokenKind" {
							neg = true
						}
					}
				}
				return !neg
			})
			return neg
		}
		ord := 0
		ast.Inspect(fn.Decl.Body, func(m ast.Node) bool {
			fs, ok := m.(*ast.ForStmt)
			if !ok {
				return true
			}
			open := fs.Cond == nil || negatedTokenTest(fs.Cond)
			if !open || !(consumes(fs.Body) || (fs.Cond != nil && consumes(fs.Cond))) {
				return true
			}
			n++
			ord++
			construct := fn.id() + ":loop#" + itoa(ord)
			guarded := (fs.Cond != nil && mentionsEOF(fs.Cond)) || mentionsEOF(fs.Body)
			// `for { ...; if !p.match(X) { break } }`: the loop repeats only after a specific token was consumed
			if !guarded && len(fs.Body.List) > 0 {
				if last, ok := fs.Body.List[len(fs.Body.List)-1].(*ast.IfStmt); ok && negatedTokenTest(last.Cond) && len(last.Body.List) > 0 {
					switch st := last.Body.List[len(last.Body.List)-1].(type) {
					case *ast.BranchStmt:
						if st.Tok == token.BREAK {
							guarded = true
						}
					case *ast.ReturnStmt:
						guarded = true
					}
				}
			}
			if guarded {
				r.ok(rule, construct, c.pos(fs.Pos()), "tests for the end of input")
			} else {
				r.viol(rule, construct, c.pos(fs.Pos()), fn.id()+" loops until a token kind is seen (or forever) while consuming tokens, without testing for the end of input: a truncated source makes the parser spin")
			}
			return true
		})
	}
	r.inst("parser.open-loops", n)
}

func init() {
	dumpers["parserloops"] = func(c *Ctx, parts []string) {
		r := newReport("dump")
		c.runParserLoops(r, "abort.parser-loop")
		for _, o := range r.Obs {
			println(o.Verdict, o.Construct, o.Pos)
		}
	}
}

// parse.listloop (C19, C08): WGSL allows a trailing comma in every
// comma-separated list (arguments, parameters, template lists, struct members,
// attributes). A parser loop that goes round again after `match(TokenComma)`
// accepts a trailing comma only if the closing token is tested again before the
// next element is parsed: the loop condition (evaluated on every iteration)
// contains a `check(<token>)` call, or the body starts with an `if` on such a
// call that leaves the loop. A loop that tests the closer only before the first
// element rejects `f(a, b,)` although it accepts `f(a, b)`.
func (c *Ctx) runListLoops(r *Report, rule string) {
	n := 0
	for _, fn := range c.allFuncs() {
		if fn.Pkg.Rel != "wgsl/internal/parser" {
			continue
		}
		info := fn.Pkg.Info
		isParserCall := func(call *ast.CallExpr, name string) bool {
			f := calleeOf(info, call)
			if f == nil || f.Name() != name {
				return false
			}
			sig, ok := f.Type().(*types.Signature)
			return ok && sig.Recv() != nil && namedName(sig.Recv().Type()) == "Parser"
		}
		matchesComma := func(nd ast.Node) bool {
			hit := false
			ast.Inspect(nd, func(m ast.Node) bool {
				switch x := m.(type) {
				case *ast.ForStmt, *ast.RangeStmt, *ast.FuncLit:
					if m != nd {
						return false // an inner loop is judged on its own
					}
				case *ast.CallExpr:
					if isParserCall(x, "match") && len(x.Args) == 1 && irConstName(info, x.Args[0]) == "TokenComma" {
						hit = true
					}
				}
				return !hit
			})
			return hit
		}
		hasCheck := func(nd ast.Node) bool {
			hit := false
			ast.Inspect(nd, func(m ast.Node) bool {
				if call, ok := m.(*ast.CallExpr); ok && (isParserCall(call, "check") || isParserCall(call, "checkAny")) {
					hit = true
				}
				return !hit
			})
			return hit
		}
		ord := 0
		ast.Inspect(fn.Decl.Body, func(m ast.Node) bool {
			fs, ok := m.(*ast.ForStmt)
			if !ok {
				return true
			}
			commaInBody := matchesComma(fs.Body)
			commaInPost := fs.Post != nil && matchesComma(fs.Post)
			if !commaInBody && !commaInPost {
				return true
			}
			n++
			ord++
			cons := fn.id() + ":listloop#" + itoa(ord)
			ok2 := fs.Cond != nil && hasCheck(fs.Cond)
			if !ok2 && len(fs.Body.List) > 0 {
				if first, isIf := fs.Body.List[0].(*ast.IfStmt); isIf && hasCheck(first.Cond) {
					ok2 = true
				}
			}
			if ok2 {
				r.ok(rule, cons, c.pos(fs.Pos()), "")
			} else {
				r.viol(rule, cons, c.pos(fs.Pos()), fn.id()+" parses a comma-separated list but does not test the closing token again after a comma (neither in the loop condition nor at the top of the body): a trailing comma before the closer is rejected")
			}
			return true
		})
	}
	r.inst("parser.listloops", n)
}

func init() {
	dumpers["listloops"] = func(c *Ctx, parts []string) {
		r := newReport("dump")
		c.runListLoops(r, "parse.listloop")
		for _, o := range r.Obs {
			println(o.Verdict, o.Construct, o.Pos)
		}
	}
}
