package main

import (
	"fmt"
	"go/ast"
	"go/constant"
	"go/token"
	"go/types"
	"regexp"
	"sort"
	"strings"
)

// armStrings: string literal values appearing directly in a case arm (returns / assignments / call arguments).
func armStrings(info *types.Info, body []ast.Stmt) []string {
	var out []string
	for _, st := range body {
		ast.Inspect(st, func(n ast.Node) bool {
			if _, ok := n.(*ast.FuncLit); ok {
				return false
			}
			if lit, ok := n.(*ast.BasicLit); ok && lit.Kind == token.STRING {
				if tv, ok := info.Types[lit]; ok && tv.Value != nil && tv.Value.Kind() == constant.String {
					out = append(out, constant.StringVal(tv.Value))
				}
			}
			return true
		})
	}
	return out
}

// enumStringMap extracts, for every switch over ir.<enumType> in pkgRel with
// coverage >= minFrac, member -> string literals of its arm.
type enumStrings struct {
	Switch *dispatchSwitch
	Arms   map[string][]string
	Pos    map[string]token.Pos
}

func (c *Ctx) enumStringMaps(pkgRel, enumType string, minFrac float64) []enumStrings {
	var out []enumStrings
	for _, d := range c.dispatchSwitches() {
		if d.Func.Pkg.Rel != pkgRel || d.TagType != enumType {
			continue
		}
		if float64(len(d.Covered)) < minFrac*float64(len(d.Universe)) {
			continue
		}
		sw, ok := d.Stmt.(*ast.SwitchStmt)
		if !ok {
			continue
		}
		info := d.Func.Pkg.Info
		es := enumStrings{Switch: d, Arms: map[string][]string{}, Pos: map[string]token.Pos{}}
		for _, cl := range sw.Body.List {
			cc := cl.(*ast.CaseClause)
			strs := armStrings(info, cc.Body)
			for _, e := range cc.List {
				if nm := irConstName(info, e); nm != "" {
					es.Arms[nm] = append(es.Arms[nm], strs...)
					es.Pos[nm] = cc.Pos()
				}
			}
		}
		out = append(out, es)
	}
	return out
}

func init() {
	dumpers["enumstrings"] = func(c *Ctx, parts []string) {
		for _, es := range c.enumStringMaps(parts[1], parts[2], 0.5) {
			fmt.Println("==", es.Switch.id(), c.pos(es.Switch.Pos))
			var ks []string
			for k := range es.Arms {
				ks = append(ks, k)
			}
			sort.Strings(ks)
			for _, k := range ks {
				fmt.Printf("  %s: %s\n", k, strings.Join(es.Arms[k], " | "))
			}
		}
	}
}

// ---- math builtin names of the text backends --------------------------------
//
// mathRef[lang][MathX] = the target-language builtin whose specified semantics
// equal the WGSL builtin's (written from the WGSL, MSL 3.x, HLSL SM6 and GLSL
// 4.50 specifications, not from the backends). mathNear lists other builtins of
// the language that are close in spelling or meaning; together with all
// reference names they form the "known builtins" of the language.
//
// Rule mathsel.names: in the function that dispatches over ir.MathFunction, the
// known builtins spelled in the string literals of the arm for MathX must be
// the reference builtin of MathX or one of the listed companions, and when the
// arm spells any builtin call at all the reference builtin must be among them.
// Arms that spell no known builtin (helper, delegated) are not judged.

var mathCommon = map[string]string{
	"MathAbs": "abs", "MathAcos": "acos", "MathAcosh": "acosh", "MathAsin": "asin", "MathAsinh": "asinh",
	"MathAtan": "atan", "MathAtanh": "atanh", "MathCeil": "ceil", "MathClamp": "clamp", "MathCos": "cos",
	"MathCosh": "cosh", "MathCross": "cross", "MathDeterminant": "determinant", "MathDistance": "distance",
	"MathDot": "dot", "MathExp": "exp", "MathExp2": "exp2", "MathFaceForward": "faceforward", "MathFloor": "floor",
	"MathLength": "length", "MathLog": "log", "MathLog2": "log2", "MathMax": "max", "MathMin": "min",
	"MathNormalize": "normalize", "MathPow": "pow", "MathReflect": "reflect", "MathRefract": "refract",
	"MathSign": "sign", "MathSin": "sin", "MathSinh": "sinh", "MathSmoothStep": "smoothstep", "MathSqrt": "sqrt",
	"MathStep": "step", "MathTan": "tan", "MathTanh": "tanh", "MathTranspose": "transpose", "MathTrunc": "trunc",
}

func withCommon(extra map[string]string) map[string]string {
	out := map[string]string{}
	for k, v := range mathCommon {
		out[k] = v
	}
	for k, v := range extra {
		out[k] = v
	}
	return out
}

var mathRef = map[string]map[string]string{
	"msl": withCommon(map[string]string{
		"MathAtan2": "atan2", "MathFma": "fma", "MathFract": "fract", "MathInverseSqrt": "rsqrt", "MathMix": "mix",
		"MathRound": "rint", // metal::round rounds halfway cases away from zero; WGSL round is half-to-even
		"MathSaturate": "saturate", "MathCountLeadingZeros": "clz", "MathCountTrailingZeros": "ctz",
		"MathCountOneBits": "popcount", "MathReverseBits": "reverse_bits",
		"MathPack4x8snorm": "pack_float_to_snorm4x8", "MathPack4x8unorm": "pack_float_to_unorm4x8",
		"MathPack2x16snorm": "pack_float_to_snorm2x16", "MathPack2x16unorm": "pack_float_to_unorm2x16",
		"MathUnpack4x8snorm": "unpack_snorm4x8_to_float", "MathUnpack4x8unorm": "unpack_unorm4x8_to_float",
		"MathUnpack2x16snorm": "unpack_snorm2x16_to_float", "MathUnpack2x16unorm": "unpack_unorm2x16_to_float",
	}),
	"hlsl": withCommon(map[string]string{
		"MathAtan2": "atan2", "MathFma": "mad", "MathFract": "frac", "MathInverseSqrt": "rsqrt", "MathMix": "lerp",
		"MathRound": "round", // HLSL round is round-half-to-even (DXIL Round_ne)
		"MathSaturate": "saturate", "MathDegrees": "degrees", "MathRadians": "radians",
		"MathCountLeadingZeros": "firstbithigh", "MathCountTrailingZeros": "firstbitlow",
		"MathFirstLeadingBit": "firstbithigh", "MathFirstTrailingBit": "firstbitlow",
		"MathCountOneBits": "countbits", "MathReverseBits": "reversebits",
	}),
	"glsl": withCommon(map[string]string{
		"MathAtan2": "atan", "MathFma": "fma", "MathFract": "fract", "MathInverseSqrt": "inversesqrt", "MathMix": "mix",
		"MathRound": "roundEven", // GLSL round() leaves the tie direction to the implementation
		"MathSaturate": "clamp", "MathDegrees": "degrees", "MathRadians": "radians",
		"MathCountLeadingZeros": "findMSB", "MathCountTrailingZeros": "findLSB",
		"MathFirstLeadingBit": "findMSB", "MathFirstTrailingBit": "findLSB",
		"MathCountOneBits": "bitCount", "MathReverseBits": "bitfieldReverse",
		"MathInverse": "inverse", "MathOuter": "outerProduct", "MathLdexp": "ldexp",
		"MathExtractBits": "bitfieldExtract", "MathInsertBits": "bitfieldInsert",
		"MathPack4x8snorm": "packSnorm4x8", "MathPack4x8unorm": "packUnorm4x8",
		"MathPack2x16snorm": "packSnorm2x16", "MathPack2x16unorm": "packUnorm2x16", "MathPack2x16float": "packHalf2x16",
		"MathUnpack4x8snorm": "unpackSnorm4x8", "MathUnpack4x8unorm": "unpackUnorm4x8",
		"MathUnpack2x16snorm": "unpackSnorm2x16", "MathUnpack2x16unorm": "unpackUnorm2x16", "MathUnpack2x16float": "unpackHalf2x16",
	}),
}

var mathNear = map[string][]string{
	"msl":  {"round", "rint", "fmin", "fmax", "fmod", "fabs", "fract", "frac", "lerp", "mad", "sqrt", "rsqrt", "exp10", "log10", "sinpi", "cospi", "tanpi", "fdim", "copysign", "mix", "saturate", "inversesqrt", "atan"},
	"hlsl": {"round", "rint", "fma", "fract", "mix", "fmod", "log10", "exp10", "inversesqrt", "rcp", "mul", "sincos", "ddx", "ddy", "firstbithigh", "firstbitlow"},
	"glsl": {"round", "roundEven", "atan2", "frac", "lerp", "rsqrt", "mod", "saturate", "mad", "log10", "findMSB", "findLSB", "bitCount", "bitfieldReverse"},
}

// companions: other known builtins an arm may legitimately spell next to (or instead of) the reference.
var mathCompanions = map[string]map[string][]string{
	"glsl": {
		"MathExtractBits": {"min"}, "MathInsertBits": {"min"},
		"MathCountTrailingZeros": {"min"}, // min(findLSB(x), 32)
		"MathFma": {}, // the non-fma fallback spells only operators
	},
	"hlsl": {},
	"msl":  {},
}

var identCallRe = regexp.MustCompile(`([A-Za-z_][A-Za-z0-9_]*)\s*(\(|$)`)

func (c *Ctx) runMathNames(r *Report, rule, lang, pkgRel string, minArms int) {
	ref := mathRef[lang]
	known := map[string]bool{}
	for _, v := range ref {
		known[v] = true
	}
	for _, v := range mathNear[lang] {
		known[v] = true
	}
	n := 0
	for _, es := range c.enumStringMaps(pkgRel, "MathFunction", 0.5) {
		// only the name-selecting dispatcher: most arms spell exactly one identifier
		single := 0
		for _, strs := range es.Arms {
			if len(strs) >= 1 {
				single++
			}
		}
		if single < minArms {
			continue
		}
		var ks []string
		for k := range es.Arms {
			ks = append(ks, k)
		}
		sort.Strings(ks)
		for _, fn := range ks {
			want, has := ref[fn]
			if !has {
				continue
			}
			spelled := map[string]bool{}
			for _, s := range es.Arms[fn] {
				for _, m := range identCallRe.FindAllStringSubmatch(s, -1) {
					if known[m[1]] {
						spelled[m[1]] = true
					}
				}
			}
			construct := es.Switch.id() + ":" + fn
			pos := c.pos(es.Pos[fn])
			if len(spelled) == 0 {
				r.triv(rule, construct, pos, "arm spells no known builtin (helper or delegated)")
				continue
			}
			n++
			allowed := map[string]bool{want: true}
			for _, a := range mathCompanions[lang][fn] {
				allowed[a] = true
			}
			var bad []string
			for s := range spelled {
				if !allowed[s] {
					bad = append(bad, s)
				}
			}
			sort.Strings(bad)
			switch {
			case len(bad) > 0:
				r.viol(rule, construct, pos, es.Switch.Func.id()+" spells "+strings.Join(bad, ", ")+" for "+fn+"; the "+lang+" builtin with WGSL's semantics is "+want)
			case !spelled[want]:
				r.viol(rule, construct, pos, es.Switch.Func.id()+": arm for "+fn+" does not spell "+want)
			default:
				r.ok(rule, construct, pos, "")
			}
		}
	}
	r.inst("mathsel."+lang, n)
}
