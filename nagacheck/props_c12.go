package main

func init() { register("C12", propC12) }

func propC12(c *Ctx, r *Report) {
	r.Clauses = append(r.Clauses,
		"E5 reset completeness: every field of spirv Backend and ModuleBuilder that any code reachable from Backend.Compile writes is unconditionally re-initialised in the prologue of Compile/Reset (history independence of a reused Backend)")
	r.NotDecided = append(r.NotDecided,
		"pointer-address-dependent behaviour, unsafe, scheduler effects in the Go runtime; byte-identity of outputs as such")
	c.runResetScopes(r, spirvResetScopes)
}
