package main

func init() { register("C12", propC12) }

func propC12(c *Ctx, r *Report) {
	r.Clauses = append(r.Clauses,
		"E5 reset completeness: every field of spirv Backend and ModuleBuilder that any code reachable from Backend.Compile writes is unconditionally re-initialised in the prologue of Compile/Reset (history independence of a reused Backend)")
	r.NotDecided = append(r.NotDecided,
		"pointer-address-dependent behaviour, unsafe, scheduler effects in the Go runtime; byte-identity of outputs as such")
	c.runResetScopes(r, spirvResetScopes)
	r.Clauses = append(r.Clauses,
		"E4 clone freshness: every container (slice / pointer / map, at every access path from the module root) that the code working on a module clone writes through - ir.ProcessOverrides on ir.CloneModuleForOverrides (glsl.Compile with PipelineConstants), the MSL pipeline-constant pass on its own copy, the DXIL inline+sroa+mem2reg+dce pipeline on its clone - is re-allocated by the clone function, so no backend writes into the module it was given")
	r.Clauses = append(r.Clauses,
		"E6 map order: every `range` over a Go map in library code has an order-insensitive body (set/map inserts, flags, counters, min/max, appends that are sorted before use, existence checks) or a written argument why the order cannot reach the output")
	r.Clauses = append(r.Clauses, "read-only package state (E27): no library function other than init assigns a package-level variable (or an element / field of one), deletes from or clears one, takes its address or calls a pointer-receiver method on it; the library uses no sync primitives - so the keyword / builtin / format tables are immutable after initialisation and concurrent compilations share no mutable state")
	c.runGlobalsNoWrite(r, "globals.nowrite")
	r.Clauses = append(r.Clauses, "reset before use (E51): the entry point of a reusable object calls its reset method before any statement reads a field that method re-initialises")
	c.runResetFirst(r, "reset.first", func(string) bool { return true })
	r.floor("reset.first", 1)
	r.floor("globals.tables", 20)
	r.floor("globals.functions", 3000)
	c.runMapOrder(r, "maporder", "mapranges", nil, mapOrderExceptions)
	r.floor("mapranges", 60)
	for _, sp := range cloneSpecs {
		c.runClone(r, "clone.fresh", sp)
		r.floor("clone."+sp.Name, 3)
	}
}
