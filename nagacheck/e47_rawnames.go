package main

// names.rawuse (C16): the spelling of an IR entity in the generated text is the
// one the backend's namer assigned (reserved words escaped, digits / double
// underscores / non-ASCII rewritten, collisions numbered). The raw Name field of
// an IR entity (struct member, type, global, function, local, argument, entry
// point, constant) may be handed to the namer, compared, used as a key or put
// into an error message, but must not reach an emission call (write / WriteLine
// / Fprintf / Sprintf / WriteString ...) - directly or through a local variable
// or a string concatenation: the declaration of the entity uses the namer's
// spelling, so the reference would name something that does not exist (member
// `m1` is declared `m1_`, `matrix` as `matrix_`).

import (
	"go/ast"
	"go/token"
	"go/types"
	"strings"
)

var rawNameOwners = map[string]bool{"StructMember": true, "Type": true, "GlobalVariable": true, "Function": true, "LocalVariable": true,
	"FunctionArgument": true, "EntryPoint": true, "Constant": true, "Override": true}

var emissionCallees = map[string]bool{"write": true, "WriteLine": true, "writeLine": true, "Fprintf": true, "Sprintf": true, "WriteString": true,
	"Fprint": true, "Fprintln": true, "Write": true}

const rawNamesClause = "raw names (E47): the Name field of an IR entity reaches the generated text only through the namer; no emission call receives it directly, through a local variable or through a concatenation"

var rawNameExceptions = map[string]string{
	"glsl/internal/codegen.Writer.resolveStructMemberAccess:Sprintf(registeredName)#1": "fallback taken only when the names table has no entry for the member; registerNames enters every member of every struct type before any function is written",
}

func (c *Ctx) runRawNames(r *Report, rule string, pkgs func(string) bool, exceptions map[string]string) {
	n := 0
	for _, fn := range c.allFuncs() {
		if !pkgs(fn.Pkg.Rel) {
			continue
		}
		info := fn.Pkg.Info
		isRawName := func(e ast.Expr) bool {
			se, ok := ast.Unparen(e).(*ast.SelectorExpr)
			if !ok || se.Sel.Name != "Name" {
				return false
			}
			t := info.TypeOf(se.X)
			if t == nil {
				return false
			}
			if p, ok := t.(*types.Pointer); ok {
				t = p.Elem()
			}
			return rawNameOwners[irTypeName(t)]
		}
		taint := map[types.Object]bool{}
		var tainted func(e ast.Expr) bool
		tainted = func(e ast.Expr) bool {
			switch x := ast.Unparen(e).(type) {
			case *ast.Ident:
				return taint[info.Uses[x]]
			case *ast.SelectorExpr:
				return isRawName(x)
			case *ast.BinaryExpr:
				if x.Op == token.ADD {
					return tainted(x.X) || tainted(x.Y)
				}
			}
			return false
		}
		for changed := true; changed; {
			changed = false
			ast.Inspect(fn.Decl.Body, func(m ast.Node) bool {
				as, ok := m.(*ast.AssignStmt)
				if !ok || len(as.Lhs) != len(as.Rhs) {
					return true
				}
				for i := range as.Lhs {
					id, ok := as.Lhs[i].(*ast.Ident)
					if !ok || !tainted(as.Rhs[i]) {
						continue
					}
					if o := info.ObjectOf(id); o != nil && !taint[o] {
						taint[o] = true
						changed = true
					}
				}
				return true
			})
		}
		ord := map[string]int{}
		// emission calls that are themselves an argument of a namer call produce a proposal, not text
		namerArg := map[*ast.CallExpr]bool{}
		ast.Inspect(fn.Decl.Body, func(m ast.Node) bool {
			outer, ok := m.(*ast.CallExpr)
			if !ok {
				return true
			}
			if f := calleeOf(info, outer); f != nil {
				if sig := f.Type().(*types.Signature); sig.Recv() != nil && strings.Contains(strings.ToLower(namedName(sig.Recv().Type())), "namer") {
					for _, a := range outer.Args {
						if inner, ok := ast.Unparen(a).(*ast.CallExpr); ok {
							namerArg[inner] = true
						}
					}
				}
			}
			return true
		})
		ast.Inspect(fn.Decl.Body, func(m ast.Node) bool {
			call, ok := m.(*ast.CallExpr)
			if !ok || namerArg[call] {
				return true
			}
			name := ""
			switch f := ast.Unparen(call.Fun).(type) {
			case *ast.SelectorExpr:
				name = f.Sel.Name
			case *ast.Ident:
				name = f.Name
			}
			if !emissionCallees[name] {
				return true
			}
			for ai, a := range call.Args {
				if !tainted(a) {
					continue
				}
				// Sprintf whose result is only an error / panic message or a comment is not an emission: judged by its format
				if lit, ok := ast.Unparen(call.Args[0]).(*ast.BasicLit); ok && ai > 0 && (strings.Contains(lit.Value, "//") || strings.Contains(lit.Value, "/*")) {
					continue
				}
				n++
				key := fn.id() + ":" + name + "(" + noSpace(types.ExprString(a)) + ")"
				ord[key]++
				cons := key + "#" + itoa(ord[key])
				if why := exceptions[cons]; why != "" {
					r.exc(rule, cons, c.pos(call.Pos()), why)
				} else {
					r.viol(rule, cons, c.pos(call.Pos()), fn.id()+" passes the raw IR name "+types.ExprString(a)+" to "+name+": the entity is declared under the namer's spelling, so a name the namer rewrites (keyword, trailing digit, '__', non-ASCII, collision) is referenced under a spelling that does not exist")
				}
			}
			return true
		})
	}
	r.inst("names.rawuse", n)
}

func init() {
	dumpers["rawnames"] = func(c *Ctx, parts []string) {
		r := newReport("dump")
		c.runRawNames(r, "names.rawuse", inPkgs("hlsl", "msl", "glsl"), nil)
		for _, o := range r.Obs {
			println(o.Verdict, o.Construct, o.Pos)
		}
	}
}
