package main

import (
	"go/ast"
	"go/types"
	"sort"
	"strings"
)

// sumType is a closed sum encoded as an interface with an unexported marker
// method plus the named types of the same package implementing it.
type sumType struct {
	Name     string
	Pkg      *types.Package
	Named    *types.Named
	Variants []*types.Named
	byName   map[string]*types.Named
}

func (s *sumType) has(name string) bool { return s.byName[name] != nil }

// sumTypes discovers every closed sum of a package from go/types.
func (c *Ctx) sumTypes(rel string) map[string]*sumType {
	key := "sums:" + rel
	if v, ok := c.cache[key]; ok {
		return v.(map[string]*sumType)
	}
	p := c.pkg(rel)
	out := map[string]*sumType{}
	scope := p.Types.Scope()
	names := scope.Names()
	for _, n := range names {
		tn, ok := scope.Lookup(n).(*types.TypeName)
		if !ok || tn.IsAlias() {
			continue
		}
		named, ok := tn.Type().(*types.Named)
		if !ok {
			continue
		}
		iface, ok := named.Underlying().(*types.Interface)
		if !ok || iface.NumMethods() == 0 {
			continue
		}
		// closed: at least one unexported method
		closed := false
		for i := 0; i < iface.NumMethods(); i++ {
			if !iface.Method(i).Exported() {
				closed = true
			}
		}
		if !closed {
			continue
		}
		st := &sumType{Name: n, Pkg: p.Types, Named: named, byName: map[string]*types.Named{}}
		for _, m := range names {
			tm, ok := scope.Lookup(m).(*types.TypeName)
			if !ok || tm.IsAlias() || m == n {
				continue
			}
			nm, ok := tm.Type().(*types.Named)
			if !ok {
				continue
			}
			if _, isIface := nm.Underlying().(*types.Interface); isIface {
				continue
			}
			if types.Implements(nm, iface) || types.Implements(types.NewPointer(nm), iface) {
				st.Variants = append(st.Variants, nm)
				st.byName[m] = nm
			}
		}
		sort.Slice(st.Variants, func(i, j int) bool { return st.Variants[i].Obj().Name() < st.Variants[j].Obj().Name() })
		if len(st.Variants) > 0 {
			out[n] = st
		}
	}
	c.cache[key] = out
	return out
}

// sumOf returns the sum type a go/types type denotes (through pointers), or nil.
func sumOf(sums map[string]*sumType, t types.Type) *sumType {
	if t == nil {
		return nil
	}
	if n, ok := types.Unalias(t).(*types.Named); ok {
		if s := sums[n.Obj().Name()]; s != nil && s.Named.Obj() == n.Obj() {
			return s
		}
	}
	return nil
}

// enumConsts returns the package-level constants of a named (non-interface) type.
func (c *Ctx) enumConsts(rel, typeName string) []*types.Const {
	p := c.pkg(rel)
	var out []*types.Const
	scope := p.Types.Scope()
	for _, n := range scope.Names() {
		if k, ok := scope.Lookup(n).(*types.Const); ok {
			if nt, ok := k.Type().(*types.Named); ok && nt.Obj().Name() == typeName && nt.Obj().Pkg() == p.Types {
				out = append(out, k)
			}
		}
	}
	return out
}

func namedName(t types.Type) string {
	t = types.Unalias(t)
	if p, ok := t.(*types.Pointer); ok {
		t = types.Unalias(p.Elem())
	}
	if n, ok := t.(*types.Named); ok {
		return n.Obj().Name()
	}
	return ""
}

func namedOf(t types.Type) *types.Named {
	t = types.Unalias(t)
	if p, ok := t.(*types.Pointer); ok {
		t = types.Unalias(p.Elem())
	}
	if n, ok := t.(*types.Named); ok {
		return n
	}
	return nil
}

func isNamed(t types.Type, pkgRel, name string) bool {
	n, ok := types.Unalias(t).(*types.Named)
	if !ok || n.Obj().Pkg() == nil {
		return false
	}
	return n.Obj().Name() == name && relPkg(n.Obj().Pkg().Path()) == pkgRel
}

// ---------------------------------------------------------------------------
// function inventory helpers

type funcInfo struct {
	Pkg  *pkgT
	Decl *ast.FuncDecl
	Obj  *types.Func
	Name string // Recv.Name or Name
}

type pkgT = struct {
	Path  string
	Rel   string
	Info  *types.Info
	Types *types.Package
	Files []*ast.File
}

func (c *Ctx) pkgT(rel string) *pkgT {
	key := "pkgT:" + rel
	if v, ok := c.cache[key]; ok {
		return v.(*pkgT)
	}
	p := c.pkg(rel)
	t := &pkgT{Path: p.PkgPath, Rel: relPkg(p.PkgPath), Info: p.TypesInfo, Types: p.Types, Files: p.Syntax}
	c.cache[key] = t
	return t
}

// allFuncs lists every function declaration of the analysed packages.
func (c *Ctx) allFuncs() []*funcInfo {
	if v, ok := c.cache["allFuncs"]; ok {
		return v.([]*funcInfo)
	}
	var out []*funcInfo
	for _, p := range c.Roots {
		pt := c.pkgT(relPkgKey(p.PkgPath))
		for _, f := range p.Syntax {
			for _, d := range f.Decls {
				fd, ok := d.(*ast.FuncDecl)
				if !ok || fd.Body == nil {
					continue
				}
				obj, _ := p.TypesInfo.Defs[fd.Name].(*types.Func)
				out = append(out, &funcInfo{Pkg: pt, Decl: fd, Obj: obj, Name: funcDeclName(fd)})
			}
		}
	}
	c.cache["allFuncs"] = out
	byObj := map[*types.Func]*funcInfo{}
	for _, f := range out {
		if f.Obj != nil {
			byObj[f.Obj] = f
		}
	}
	c.cache["funcByObj"] = byObj
	return out
}

func (c *Ctx) funcByObj(o *types.Func) *funcInfo {
	c.allFuncs()
	return c.cache["funcByObj"].(map[*types.Func]*funcInfo)[o.Origin()]
}

func relPkgKey(path string) string {
	if path == modPath {
		return ""
	}
	return strings.TrimPrefix(path, modPath+"/")
}

func funcDeclName(fd *ast.FuncDecl) string {
	if fd.Recv != nil && len(fd.Recv.List) > 0 {
		t := fd.Recv.List[0].Type
		for {
			switch x := t.(type) {
			case *ast.StarExpr:
				t = x.X
				continue
			case *ast.IndexExpr:
				t = x.X
				continue
			case *ast.ParenExpr:
				t = x.X
				continue
			}
			break
		}
		if id, ok := t.(*ast.Ident); ok {
			return id.Name + "." + fd.Name.Name
		}
	}
	return fd.Name.Name
}

func (f *funcInfo) id() string { return f.Pkg.Rel + "." + f.Name }

// calleeOf resolves the static callee of a call through go/types (never by name).
func calleeOf(info *types.Info, call *ast.CallExpr) *types.Func {
	fun := ast.Unparen(call.Fun)
	switch x := fun.(type) {
	case *ast.IndexExpr:
		fun = x.X
	case *ast.IndexListExpr:
		fun = x.X
	}
	var obj types.Object
	switch x := fun.(type) {
	case *ast.Ident:
		obj = info.Uses[x]
	case *ast.SelectorExpr:
		if sel := info.Selections[x]; sel != nil {
			obj = sel.Obj()
		} else {
			obj = info.Uses[x.Sel]
		}
	}
	if f, ok := obj.(*types.Func); ok {
		return f
	}
	return nil
}
