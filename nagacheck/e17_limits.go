package main

// range.kindlimit (C06, C14, C15): integer limits under a signedness guard.
//
// Code that converts, clamps or range-checks a value for a signed or an
// unsigned WGSL integer type sits under a guard that fixes the scalar kind
// (case ir.ScalarSint:, if kind == ir.ScalarUint {...}). Every compile-time
// constant of limit magnitude (|c| >= 2^31 - 256: INT_MAX, UINT_MAX, their f32
// neighbours, the 64-bit ones) used there must be a limit of THAT kind:
//   signed:   -2^31, 2^31-1, 2147483520 (largest f32 below 2^31), -2^63, 2^63-1,
//             9223372036854774784 (f64), 9223371487098961920 (f32)
//   unsigned: 2^32-1, 4294967040 (f32), 2^64-1, 18446744073709549568 (f64),
//             18446742974197923840 (f32), 2^63-1 (split point of the u64 conversion)
// A signed limit in the unsigned branch (v <= math.MaxInt32 for a u32) silently
// rejects or clamps every value with the top bit set.

import (
	"go/ast"
	"go/constant"
	"go/types"
	"math/big"
	"strings"
)

func bigOf(s string) *big.Float {
	f, _, _ := big.ParseFloat(s, 10, 200, big.ToNearestEven)
	return f
}

var signedLimits = []string{"-2147483648", "2147483647", "2147483520", "-9223372036854775808", "9223372036854775807", "9223372036854774784", "9223371487098961920", "9223372036854775808"}
var unsignedLimits = []string{"4294967295", "4294967040", "18446744073709551615", "18446744073709549568", "18446742974197923840", "9223372036854775807", "9223372036854775808", "4294967296"}

func inLimitSet(v *big.Float, set []string) bool {
	for _, s := range set {
		if v.Cmp(bigOf(s)) == 0 {
			return true
		}
	}
	return false
}

func (c *Ctx) runKindLimits(r *Report, rule string, pkgs func(string) bool) {
	n := 0
	threshold := bigOf("2147483392") // 2^31 - 256
	for _, fn := range c.allFuncs() {
		if !pkgs(fn.Pkg.Rel) {
			continue
		}
		info := fn.Pkg.Info
		ord := map[string]int{}
		var stack []ast.Node
		ast.Inspect(fn.Decl.Body, func(nd ast.Node) bool {
			if nd == nil {
				stack = stack[:len(stack)-1]
				return true
			}
			stack = append(stack, nd)
			e, ok := nd.(ast.Expr)
			if !ok {
				return true
			}
			tv, ok := info.Types[e]
			if !ok || tv.Value == nil {
				return true
			}
			if tv.Value.Kind() != constant.Int && tv.Value.Kind() != constant.Float {
				return false
			}
			// only maximal constant expressions
			if len(stack) >= 2 {
				if pe, ok := stack[len(stack)-2].(ast.Expr); ok {
					if ptv, ok := info.Types[pe]; ok && ptv.Value != nil {
						return false
					}
				}
			}
			v := bigOf(tv.Value.ExactString())
			if v == nil {
				if f, ok := constant.Float64Val(tv.Value); ok || f != 0 {
					v = new(big.Float).SetFloat64(f)
				} else {
					return false
				}
			}
			abs := new(big.Float).Abs(v)
			if abs.Cmp(threshold) < 0 {
				return false
			}
			// guard context
			signed, known, why := false, false, ""
			for i := len(stack) - 2; i >= 0 && !known; i-- {
				switch p := stack[i].(type) {
				case *ast.CaseClause:
					var ks kindSet
					for _, l := range p.List {
						if nm := irConstName(info, l); strings.HasPrefix(nm, "Scalar") && isNamedScalarKindExpr(info, l) {
							if ks == nil {
								ks = kindSet{}
							}
							ks[nm] = true
						}
					}
					if s, ok := kindSetSign(ks); ok {
						signed, known, why = s, true, "case "+ks.String()
					}
				case *ast.IfStmt:
					if i+1 < len(stack) && stack[i+1] == p.Body {
						if ks, _ := kindFacts(info, p.Cond); ks != nil {
							if s, ok := kindSetSign(ks); ok {
								signed, known, why = s, true, types.ExprString(p.Cond)
							}
						}
					}
				case *ast.FuncLit:
					i = -1
				}
			}
			if !known {
				return false
			}
			n++
			cons := fn.id() + ":" + noSpace(strings.TrimPrefix(why, "case ")) + ":" + noSpace(tv.Value.String())
			ord[cons]++
			if ord[cons] > 1 {
				cons += "#" + itoa(ord[cons])
			}
			pos := c.pos(e.Pos())
			set, kind := unsignedLimits, "unsigned"
			if signed {
				set, kind = signedLimits, "signed"
			}
			if inLimitSet(v, set) {
				r.ok(rule, cons, pos, "")
			} else {
				r.viol(rule, cons, pos, fn.id()+" uses the constant "+types.ExprString(e)+" (= "+tv.Value.String()+") under the guard `"+why+"`, but it is not a limit of a "+kind+" WGSL integer type: the "+kind+" range is checked or clamped against the wrong bound")
			}
			return false
		})
	}
	r.inst("range.kindlimit", n)
}

func init() {
	dumpers["limits"] = func(c *Ctx, parts []string) {
		r := newReport("dump")
		c.runKindLimits(r, "range.kindlimit", func(string) bool { return true })
		for _, o := range r.Obs {
			println(o.Verdict, o.Construct, o.Pos, o.Msg)
		}
	}
}

// override.converted (C14): a pipeline-overridable constant has the supplied
// value "converted to the override's type". Override resolution keeps a table of
// resolved numbers ([]float64 indexed by override) from which dependent
// overrides and initialisers are evaluated; every store into such a table must
// take its value from a call that receives the override's declared type (its
// Ty field) - the type-aware conversion. Storing the raw supplied number makes
// everything evaluated from the table disagree with the override itself
// (a: i32 = 2.5 is 2, but b = a * 2 became 5).
func (c *Ctx) runOverrideConverted(r *Report, rule string) {
	n := 0
	for _, fn := range c.allFuncs() {
		if fn.Pkg.Rel != "ir" && fn.Pkg.Rel != "msl/internal/codegen" {
			continue
		}
		info := fn.Pkg.Info
		ord := 0
		ast.Inspect(fn.Decl.Body, func(m ast.Node) bool {
			as, ok := m.(*ast.AssignStmt)
			if !ok || len(as.Lhs) != 1 || len(as.Rhs) != 1 {
				return true
			}
			ix, ok := ast.Unparen(as.Lhs[0]).(*ast.IndexExpr)
			if !ok {
				return true
			}
			tv, ok := info.Types[ix.X]
			if !ok {
				return true
			}
			sl, ok := tv.Type.Underlying().(*types.Slice)
			if !ok {
				return true
			}
			if b, ok := sl.Elem().Underlying().(*types.Basic); !ok || b.Kind() != types.Float64 {
				return true
			}
			// the table must be sized by the module's overrides: make([]float64, len(X.Overrides))
			id, ok := ast.Unparen(ix.X).(*ast.Ident)
			if !ok {
				return true
			}
			sized := false
			ast.Inspect(fn.Decl.Body, func(k ast.Node) bool {
				a2, ok := k.(*ast.AssignStmt)
				if !ok || len(a2.Lhs) != 1 || len(a2.Rhs) != 1 {
					return true
				}
				if l, ok := a2.Lhs[0].(*ast.Ident); ok && (info.Defs[l] == info.Uses[id] || info.Uses[l] == info.Uses[id]) {
					if strings.Contains(types.ExprString(a2.Rhs[0]), ".Overrides)") {
						sized = true
					}
				}
				return true
			})
			if !sized {
				return true
			}
			n++
			ord++
			cons := fn.id() + ":" + id.Name
			if ord > 1 {
				cons += "#" + itoa(ord)
			}
			typed := false
			ast.Inspect(as.Rhs[0], func(k ast.Node) bool {
				call, ok := k.(*ast.CallExpr)
				if !ok {
					return true
				}
				for _, a := range call.Args {
					if se, ok := ast.Unparen(a).(*ast.SelectorExpr); ok && se.Sel.Name == "Ty" {
						typed = true
					}
				}
				return true
			})
			if typed {
				r.ok(rule, cons, c.pos(as.Pos()), "")
			} else {
				r.viol(rule, cons, c.pos(as.Pos()), fn.id()+" stores "+types.ExprString(as.Rhs[0])+" into the table of resolved override values without a conversion that receives the override's type: dependent overrides and initialisers are evaluated from the raw supplied number")
			}
			return true
		})
	}
	r.inst("override.converted", n)
}

// override.literalkind (C14): OverrideInitLiteral carries the numeric default of
// an override as a float64 whatever the override's declared type. A function
// that turns it into an IR literal must choose the literal's kind from that
// type (it needs a scalar kind / type in scope); an arm that always builds
// ir.LiteralF32 makes `override c: i32 = 7` the float 7.0 (rounded to 24 bits for
// large values), and everything computed from it float arithmetic: c % 4 is
// emitted as fmod(7.0, 4).
func (c *Ctx) runOverrideLiteralKind(r *Report, rule string) {
	n := 0
	for _, fn := range c.allFuncs() {
		if !inPkgs("wgsl", "ir")(fn.Pkg.Rel) {
			continue
		}
		info := fn.Pkg.Info
		ast.Inspect(fn.Decl.Body, func(m ast.Node) bool {
			cc, ok := m.(*ast.CaseClause)
			if !ok || len(cc.List) != 1 {
				return true
			}
			if irTypeName(info.TypeOf(cc.List[0])) != "OverrideInitLiteral" {
				return true
			}
			// does the arm build an ir.Literal?
			buildsF32, buildsOther := false, false
			ast.Inspect(cc, func(k ast.Node) bool {
				if call, ok := k.(*ast.CallExpr); ok {
					if tv, ok := info.Types[call.Fun]; ok && tv.IsType() {
						switch irTypeName(tv.Type) {
						case "LiteralF32":
							buildsF32 = true
						case "LiteralI32", "LiteralU32", "LiteralF16", "LiteralF64", "LiteralI64", "LiteralU64":
							buildsOther = true
						}
					}
				}
				return true
			})
			if !buildsF32 && !buildsOther {
				return true
			}
			n++
			cons := fn.id() + ":OverrideInitLiteral"
			// a scalar kind / type visible in the arm?
			typed := buildsOther
			ast.Inspect(cc, func(k ast.Node) bool {
				if id, ok := k.(*ast.Ident); ok {
					if o := info.Uses[id]; o != nil {
						switch irTypeName(o.Type()) {
						case "ScalarKind", "ScalarType", "TypeHandle":
							typed = true
						}
					}
				}
				if se, ok := k.(*ast.SelectorExpr); ok && (se.Sel.Name == "Kind" || se.Sel.Name == "Ty") {
					typed = true
				}
				return true
			})
			if typed {
				r.ok(rule, cons, c.pos(cc.Pos()), "")
			} else {
				r.viol(rule, cons, c.pos(cc.Pos()), fn.id()+" turns the numeric default of an override into ir.LiteralF32 without looking at the override's type: integer overrides get float defaults (override c: i32 = 7 -> 7.0; 2147483647 -> 2147483600.0) and expressions over them are emitted as float arithmetic")
			}
			return true
		})
	}
	r.inst("override.literalkind", n)
}
