package main

// layout.vecfactor (C07): WGSL's AlignOf(vecN<T>) is 2, 4, 4 times SizeOf(T)
// for N = 2, 3, 4 (a vec3 is aligned like a vec4), and a matrix column is
// aligned - and, in buffers, strided - like the vector of its rows. The IR
// layouter, the size helpers and the MatrixStride decorations all carry this
// table as a switch over an ir.VectorSize value whose arms only assign or
// return an integer constant. Every such factor table must map Vec2 -> 2 and
// Vec3, Vec4 -> 4 (through explicit arms or the default arm).

import (
	"go/ast"
	"go/types"
)

func (c *Ctx) runVecFactor(r *Report, rule string, pkgs func(string) bool) {
	n := 0
	for _, fn := range c.allFuncs() {
		if !pkgs(fn.Pkg.Rel) {
			continue
		}
		info := fn.Pkg.Info
		ord := 0
		ast.Inspect(fn.Decl.Body, func(m ast.Node) bool {
			sw, ok := m.(*ast.SwitchStmt)
			if !ok || sw.Tag == nil {
				return true
			}
			tv, ok := info.Types[sw.Tag]
			if !ok || irTypeName(tv.Type) != "VectorSize" {
				return true
			}
			vals := map[string]int{}
			var target string
			table := true
			for _, cl := range sw.Body.List {
				cc := cl.(*ast.CaseClause)
				if len(cc.Body) != 1 {
					table = false
					break
				}
				var k int
				okc := false
				switch st := cc.Body[0].(type) {
				case *ast.AssignStmt:
					if len(st.Lhs) == 1 && len(st.Rhs) == 1 {
						if v, ok := constInt(info, st.Rhs[0]); ok {
							k, okc = v, true
							t := types.ExprString(st.Lhs[0])
							if target != "" && target != t {
								okc = false
							}
							target = t
						}
					}
				case *ast.ReturnStmt:
					if len(st.Results) == 1 {
						if v, ok := constInt(info, st.Results[0]); ok {
							k, okc = v, true
						}
					}
				}
				if !okc {
					table = false
					break
				}
				if cc.List == nil {
					vals["default"] = k
				}
				for _, l := range cc.List {
					// labels are ir.Vec2.. constants or the plain numbers 2, 3, 4
					if v, ok := constInt(info, l); ok && v >= 2 && v <= 4 {
						vals["Vec"+itoa(v)] = k
					} else {
						table = false
					}
				}
			}
			if !table || len(vals) == 0 {
				return true
			}
			n++
			ord++
			cons := fn.id() + ":VectorSize-factor"
			if ord > 1 {
				cons += "#" + itoa(ord)
			}
			get := func(name string) (int, bool) {
				if v, ok := vals[name]; ok {
					return v, true
				}
				v, ok := vals["default"]
				return v, ok
			}
			want := map[string]int{"Vec2": 2, "Vec3": 4, "Vec4": 4}
			bad := ""
			for _, name := range []string{"Vec2", "Vec3", "Vec4"} {
				if v, ok := get(name); ok && v != want[name] {
					bad += " " + name + "->" + itoa(v) + " (WGSL: " + itoa(want[name]) + ")"
				}
			}
			pos := c.pos(sw.Pos())
			if bad == "" {
				r.ok(rule, cons, pos, "")
			} else {
				r.viol(rule, cons, pos, fn.id()+" carries the vector alignment factor table as"+bad+": the alignment / column stride of those vectors and of matrices with that many rows differs from the WGSL layout")
			}
			return true
		})
	}
	r.inst("layout.vecfactor", n)
}

// layout.colstride (C07, C03): a matrix is stored column by column; the stride
// between columns is the alignment of a column vector, i.e. the alignment
// factor of a vector with as many components as the matrix has ROWS. Every
// call of a function that is a vector alignment factor table (one
// ir.VectorSize parameter, its body the table switch of layout.vecfactor) that
// passes a field of an ir.MatrixType value must pass .Rows - with .Columns the
// stride is wrong for every matrix with exactly one dimension equal to 2.
func (c *Ctx) runColStride(r *Report, rule string, pkgs func(string) bool) {
	// factor-table functions
	tables := map[*types.Func]bool{}
	for _, fn := range c.allFuncs() {
		if fn.Obj == nil {
			continue
		}
		sig := fn.Obj.Type().(*types.Signature)
		if sig.Params().Len() != 1 || irTypeName(sig.Params().At(0).Type()) != "VectorSize" || sig.Results().Len() != 1 {
			continue
		}
		if len(fn.Decl.Body.List) != 1 {
			continue
		}
		if sw, ok := fn.Decl.Body.List[0].(*ast.SwitchStmt); ok && sw.Tag != nil {
			if id, ok := ast.Unparen(sw.Tag).(*ast.Ident); ok && fn.Pkg.Info.Uses[id] == sig.Params().At(0) {
				tables[fn.Obj] = true
			}
		}
	}
	n := 0
	for _, fn := range c.allFuncs() {
		if !pkgs(fn.Pkg.Rel) {
			continue
		}
		info := fn.Pkg.Info
		ord := 0
		ast.Inspect(fn.Decl.Body, func(m ast.Node) bool {
			call, ok := m.(*ast.CallExpr)
			if !ok || len(call.Args) != 1 {
				return true
			}
			f := calleeOf(info, call)
			if f == nil || !tables[f.Origin()] {
				return true
			}
			se, ok := ast.Unparen(call.Args[0]).(*ast.SelectorExpr)
			if !ok {
				return true
			}
			tv, ok := info.Types[se.X]
			if !ok || irTypeName(tv.Type) != "MatrixType" {
				return true
			}
			n++
			ord++
			cons := fn.id() + ":" + f.Name()
			if ord > 1 {
				cons += "#" + itoa(ord)
			}
			if se.Sel.Name == "Rows" {
				r.ok(rule, cons, c.pos(call.Pos()), "")
			} else {
				r.viol(rule, cons, c.pos(call.Pos()), fn.id()+" takes the alignment factor of "+types.ExprString(call.Args[0])+": the stride between the columns of a matrix is the alignment of a vector with Rows components, not "+se.Sel.Name)
			}
			return true
		})
	}
	r.inst("layout.colstride", n)
}
