package main

// layout.seethrough (C07, C02): a struct member whose type is a matrix, or an
// array of ... arrays of matrices (any depth), needs ColMajor + MatrixStride.
// Every site that emits DecorationMatrixStride for a value `m` obtained by
// `m, ok := v.(ir.MatrixType)` must have found `v` by peeling *all* array
// levels: `v` is re-assigned inside a `for` loop whose body asserts
// `v.(ir.ArrayType)` (or v is not re-assigned from an array base at all and the
// function recurses). A single `if arr, ok := v.(ir.ArrayType)` peels one level
// and leaves array<array<matCxR>> members without a matrix layout.

import (
	"go/ast"
	"go/types"
)

func (c *Ctx) runSeeThrough(r *Report, rule string) {
	n := 0
	for _, fn := range c.allFuncs() {
		if fn.Pkg.Rel != "spirv/internal/codegen" {
			continue
		}
		info := fn.Pkg.Info
		ord := 0
		// parent map for enclosing-if lookup
		var stack []ast.Node
		ast.Inspect(fn.Decl.Body, func(nd ast.Node) bool {
			if nd == nil {
				stack = stack[:len(stack)-1]
				return true
			}
			stack = append(stack, nd)
			call, ok := nd.(*ast.CallExpr)
			if !ok {
				return true
			}
			uses := false
			for _, a := range call.Args {
				if id, ok := ast.Unparen(a).(*ast.Ident); ok {
					if k, ok := info.Uses[id].(*types.Const); ok && k.Name() == "DecorationMatrixStride" {
						uses = true
					}
				}
			}
			if !uses {
				return true
			}
			// enclosing `if m, ok := v.(ir.MatrixType); ok`
			var v types.Object
			for i := len(stack) - 1; i >= 0 && v == nil; i-- {
				ifs, ok := stack[i].(*ast.IfStmt)
				if !ok {
					continue
				}
				as, ok := ifs.Init.(*ast.AssignStmt)
				if !ok || len(as.Rhs) != 1 {
					continue
				}
				ta, ok := ast.Unparen(as.Rhs[0]).(*ast.TypeAssertExpr)
				if !ok || ta.Type == nil {
					continue
				}
				if tv, ok := info.Types[ta.Type]; !ok || irTypeName(tv.Type) != "MatrixType" {
					continue
				}
				if id, ok := ast.Unparen(ta.X).(*ast.Ident); ok {
					v = info.Uses[id]
				}
			}
			ord++
			n++
			cons := fn.id() + ":DecorationMatrixStride"
			if ord > 1 {
				cons += "#" + itoa(ord)
			}
			pos := c.pos(call.Pos())
			if v == nil {
				r.undecided(rule, cons, pos, "cannot find the `m, ok := v.(ir.MatrixType)` test that guards this MatrixStride decoration")
				return true
			}
			// v must be peeled in a loop
			peeledInLoop, peeledOnce := false, false
			var walk func(nd ast.Node, inLoop bool)
			walk = func(nd ast.Node, inLoop bool) {
				ast.Inspect(nd, func(m ast.Node) bool {
					switch x := m.(type) {
					case *ast.ForStmt:
						if x.Body != nil {
							walk(x.Body, true)
						}
						return false
					case *ast.RangeStmt:
						// a range loop over members does not iterate array levels
						return true
					case *ast.AssignStmt:
						for _, l := range x.Lhs {
							if id, ok := ast.Unparen(l).(*ast.Ident); ok && info.Uses[id] == v {
								if inLoop {
									peeledInLoop = true
								} else {
									peeledOnce = true
								}
							}
						}
					}
					return true
				})
			}
			walk(fn.Decl.Body, false)
			switch {
			case peeledInLoop:
				r.ok(rule, cons, pos, "")
			case peeledOnce:
				r.viol(rule, cons, pos, fn.id()+" decorates a matrix found in "+v.Name()+" with MatrixStride, but "+v.Name()+" is unwrapped from an array only once (not in a loop): a member of type array<array<matCxR>> gets no ColMajor/MatrixStride")
			default:
				r.viol(rule, cons, pos, fn.id()+" decorates a matrix found in "+v.Name()+" with MatrixStride without looking through arrays: arrays of matrices get no ColMajor/MatrixStride")
			}
			return true
		})
	}
	r.inst("layout.seethrough", n)
}
