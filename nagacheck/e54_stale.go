package main

import (
	"go/ast"
	"go/token"
	"go/types"
	"sort"
	"strings"
)

// phase.stalehandles (C09, C10, C08): ir.CompactTypes / ir.ReorderTypes renumber
// the type arena and ir.CompactConstants the constant arena. Whatever the lowerer runs after them (in the function that
// calls them, in source order - the calls sit on its straight-line tail) works
// on new handles, so it must not consult the lowerer's own tables of
// TypeHandles filled before the renumbering: fields of the receiver whose type
// is a map to ir.TypeHandle, or the type registry (*ir.TypeRegistry). A handle
// from such a table indexes the new arena at an unrelated slot or past its end
// (var<private> v: S = S(vec2(1, 2), 3) panicked in buildGlobalExprFromAST).
func (c *Ctx) runStaleHandles(r *Report, rule string, pkg string, exceptions map[string]string) {
	renumber := map[string]bool{"CompactTypes": true, "ReorderTypes": true, "CompactConstants": true}
	nSites, nTails := 0, 0
	for _, fn := range c.allFuncs() {
		if fn.Pkg.Rel != pkg || fn.Obj == nil || fn.Decl.Body == nil {
			continue
		}
		info := fn.Pkg.Info
		// last renumbering call at the top level of the body
		var after token.Pos
		for _, st := range fn.Decl.Body.List {
			es, ok := st.(*ast.ExprStmt)
			if !ok {
				continue
			}
			call, ok := es.X.(*ast.CallExpr)
			if !ok {
				continue
			}
			f := calleeOf(info, call)
			if f != nil && f.Pkg() != nil && strings.HasSuffix(f.Pkg().Path(), "/ir") && renumber[f.Name()] {
				after = call.End()
			}
		}
		if !after.IsValid() {
			continue
		}
		nTails++
		// functions called after the renumbering
		var entries []*types.Func
		ast.Inspect(fn.Decl.Body, func(n ast.Node) bool {
			call, ok := n.(*ast.CallExpr)
			if !ok || call.Pos() < after {
				return true
			}
			if f := calleeOf(info, call); f != nil {
				entries = append(entries, f)
			}
			return true
		})
		reach := c.reach(entries...)
		var fs []*funcInfo
		for f := range reach {
			if fi := c.funcByObj(f); fi != nil && fi.Pkg.Rel == pkg {
				fs = append(fs, fi)
			}
		}
		sort.Slice(fs, func(i, j int) bool { return fs[i].id() < fs[j].id() })
		for _, g := range fs {
			ginfo := g.Pkg.Info
			seen := map[string]bool{}
			ast.Inspect(g.Decl.Body, func(n ast.Node) bool {
				sel, ok := n.(*ast.SelectorExpr)
				if !ok {
					return true
				}
				s := ginfo.Selections[sel]
				if s == nil || s.Kind() != types.FieldVal {
					return true
				}
				fld, ok := s.Obj().(*types.Var)
				if !ok || !isStaleTypeTable(fld.Type()) {
					return true
				}
				// a table of the package's own state (the lowerer), not of the module
				if fld.Pkg() == nil || fld.Pkg() != fn.Obj.Pkg() {
					return true
				}
				cons := g.id() + ":" + fld.Name()
				if seen[cons] {
					return true
				}
				seen[cons] = true
				nSites++
				if why := exceptions[cons]; why != "" {
					r.exc(rule, cons, c.pos(sel.Pos()), why)
				} else {
					r.viol(rule, cons, c.pos(sel.Pos()), g.id()+" runs after "+fn.id()+" has renumbered the type arena (ir.CompactTypes / ir.ReorderTypes) and reads "+fld.Name()+", a table of type / constant handles filled before the renumbering: the handle indexes the new arena at an unrelated slot or past its end")
				}
				return true
			})
			if len(seen) == 0 {
				r.ok(rule, g.id(), c.pos(g.Decl.Pos()), "")
			}
		}
		r.inst("phase.afterRenumbering", len(fs))
	}
	r.inst("phase.renumberingTails", nTails)
	r.inst(rule, nSites)
}

func isStaleTypeTable(t types.Type) bool {
	if n := namedOf(t); n != nil && n.Obj().Name() == "TypeRegistry" {
		return true
	}
	if m, ok := t.Underlying().(*types.Map); ok {
		return irTypeName(m.Elem()) == "TypeHandle" || irTypeName(m.Elem()) == "ConstantHandle"
	}
	return false
}

func init() {
	dumpers["stale"] = func(c *Ctx, parts []string) {
		r := newReport("dump")
		c.runStaleHandles(r, "phase.stalehandles", "wgsl/internal/lower", nil)
		for _, o := range r.Obs {
			println(o.Verdict, o.Construct, o.Pos)
		}
	}
}
