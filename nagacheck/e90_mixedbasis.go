package main

import (
	"go/ast"
	"go/types"
)

// index.mixedbasis (C17): a list that is flattened from a two-level structure
// (arguments, and the members of struct-typed arguments) and later re-ordered
// by a position field needs that field to be the position in the flattened
// list. Where one append to the list takes the field from len(list) - the
// running position - and another append to the same list, inside the same
// outer loop, takes it from the outer loop's key, the two numberings overlap
// as soon as one outer item contributes more than one element: the later sort
// by that field interleaves the elements (HLSL initialised a fragment
// parameter from the interface member of the neighbouring one).
func (c *Ctx) runMixedBasis(r *Report, rule string, inPkg func(string) bool) {
	n := 0
	for _, fn := range c.allFuncs() {
		if !inPkg(fn.Pkg.Rel) || fn.Decl.Body == nil {
			continue
		}
		info := fn.Pkg.Info
		type app struct {
			call   *ast.CallExpr
			field  string
			val    ast.Expr
			ranges []*ast.RangeStmt // enclosing range statements, outermost first
		}
		groups := map[types.Object][]app{}
		var order []types.Object
		var stack []*ast.RangeStmt
		var visit func(node ast.Node)
		visit = func(node ast.Node) {
			ast.Inspect(node, func(m ast.Node) bool {
				if m == nil || m == node {
					return true
				}
				switch x := m.(type) {
				case *ast.FuncLit:
					return false
				case *ast.RangeStmt:
					stack = append(stack, x)
					visit(x)
					stack = stack[:len(stack)-1]
					return false
				case *ast.CallExpr:
					id, ok := x.Fun.(*ast.Ident)
					if !ok || id.Name != "append" || len(x.Args) != 2 {
						return true
					}
					if _, isB := info.ObjectOf(id).(*types.Builtin); !isB {
						return true
					}
					sid, ok := ast.Unparen(x.Args[0]).(*ast.Ident)
					if !ok {
						return true
					}
					s := info.ObjectOf(sid)
					cl, ok := ast.Unparen(x.Args[1]).(*ast.CompositeLit)
					if !ok {
						return true
					}
					for _, el := range cl.Elts {
						kv, ok := el.(*ast.KeyValueExpr)
						if !ok {
							continue
						}
						k, ok := kv.Key.(*ast.Ident)
						if !ok {
							continue
						}
						if b, ok := info.TypeOf(kv.Value).Underlying().(*types.Basic); !ok || b.Info()&types.IsInteger == 0 {
							continue
						}
						if _, seen := groups[s]; !seen {
							order = append(order, s)
						}
						groups[s] = append(groups[s], app{x, k.Name, kv.Value, append([]*ast.RangeStmt(nil), stack...)})
					}
				}
				return true
			})
		}
		visit(fn.Decl.Body)
		// resolve a value through conversions and one local definition
		var resolve func(e ast.Expr, depth int) ast.Expr
		resolve = func(e ast.Expr, depth int) ast.Expr {
			e = ast.Unparen(e)
			if call, ok := e.(*ast.CallExpr); ok && len(call.Args) == 1 {
				if tv, ok := info.Types[call.Fun]; ok && tv.IsType() {
					return resolve(call.Args[0], depth)
				}
			}
			if id, ok := e.(*ast.Ident); ok && depth < 2 {
				v := info.ObjectOf(id)
				var def ast.Expr
				cnt := 0
				ast.Inspect(fn.Decl.Body, func(m ast.Node) bool {
					if as, ok := m.(*ast.AssignStmt); ok && len(as.Lhs) == len(as.Rhs) {
						for i, l := range as.Lhs {
							if lid, ok := l.(*ast.Ident); ok && info.ObjectOf(lid) == v {
								def = as.Rhs[i]
								cnt++
							}
						}
					}
					return true
				})
				if cnt == 1 {
					return resolve(def, depth+1)
				}
			}
			return e
		}
		for _, s := range order {
			apps := groups[s]
			byField := map[string][]app{}
			for _, a := range apps {
				byField[a.field] = append(byField[a.field], a)
			}
			for field, as := range byField {
				if len(as) < 2 {
					continue
				}
				running := false
				for _, a := range as {
					if call, ok := resolve(a.val, 0).(*ast.CallExpr); ok && len(call.Args) == 1 {
						if id, ok := call.Fun.(*ast.Ident); ok && id.Name == "len" {
							if aid, ok := ast.Unparen(call.Args[0]).(*ast.Ident); ok && info.ObjectOf(aid) == s {
								running = true
							}
						}
					}
				}
				if !running {
					continue
				}
				n++
				cons := fn.id() + ":" + s.Name() + "." + field
				bad := ""
				var badPos ast.Node
				for _, a := range as {
					id, ok := resolve(a.val, 0).(*ast.Ident)
					if !ok {
						continue
					}
					v := info.ObjectOf(id)
					for _, rs := range a.ranges {
						kid, ok := rs.Key.(*ast.Ident)
						if !ok || info.ObjectOf(kid) != v {
							continue
						}
						if xid, ok := ast.Unparen(rs.X).(*ast.Ident); ok && info.ObjectOf(xid) == s {
							continue
						}
						bad = id.Name
						badPos = a.call
					}
				}
				if bad == "" {
					r.ok(rule, cons, c.pos(as[0].call.Pos()), "")
				} else {
					r.viol(rule, cons, c.pos(badPos.Pos()), fn.id()+" numbers the elements of "+s.Name()+" by len("+s.Name()+") in one append and by the outer loop key "+bad+" in another: the two numberings overlap when an outer item contributes several elements, and a later ordering by ."+field+" interleaves them")
				}
			}
		}
	}
	r.inst(rule, n)
}

func init() {
	dumpers["mixedbasis"] = func(c *Ctx, parts []string) {
		r := newReport("dump")
		c.runMixedBasis(r, "index.mixedbasis", func(string) bool { return true })
		for _, o := range r.Obs {
			println(o.Verdict, o.Construct, o.Pos, o.Msg)
		}
	}
}
