package main

// E14 guard agreement (C04, C15, C17, C02).
//
// guard.agree  a variable that records "the entity with role C" is assigned at
//   several sites of one function, each the direct body statement of an
//   `if x == C` test against a constant of an enum of the repository (e.g. the
//   name of the local_invocation_id parameter, recorded both for direct
//   builtin arguments and for builtin members of a struct argument). Unless
//   the sites assign pairwise different compile-time constants (a table
//   written as ifs), every site must test the same constant: a site testing a
//   sibling constant records the wrong entity on that path only.

import (
	"go/ast"
	"go/token"
	"go/types"
	"sort"
	"strings"
)

type guardedAssign struct {
	Fn     *funcInfo
	Var    types.Object
	Const  *types.Const
	Pos    token.Pos
	RHSLit bool
	RHSVal string
}

// guardedAssigns: assignments `v = e` that are a direct statement of the body of
// `if X == C { ... }` (no else), C a constant of a named enum type of package ir.
func (c *Ctx) guardedAssigns() []guardedAssign {
	var out []guardedAssign
	for _, fn := range c.allFuncs() {
		info := fn.Pkg.Info
		ast.Inspect(fn.Decl.Body, func(n ast.Node) bool {
			ifs, ok := n.(*ast.IfStmt)
			if !ok || ifs.Else != nil {
				return true
			}
			be, ok := ast.Unparen(ifs.Cond).(*ast.BinaryExpr)
			if !ok || be.Op != token.EQL {
				return true
			}
			var k *types.Const
			for _, side := range []ast.Expr{be.X, be.Y} {
				switch y := ast.Unparen(side).(type) {
				case *ast.Ident:
					if cc, ok := info.Uses[y].(*types.Const); ok {
						k = cc
					}
				case *ast.SelectorExpr:
					if cc, ok := info.Uses[y.Sel].(*types.Const); ok {
						k = cc
					}
				}
			}
			if k == nil || k.Pkg() == nil || !strings.HasPrefix(k.Pkg().Path(), modPath) {
				return true
			}
			if _, named := types.Unalias(k.Type()).(*types.Named); !named {
				return true
			}
			for _, s := range ifs.Body.List {
				as, ok := s.(*ast.AssignStmt)
				if !ok || as.Tok != token.ASSIGN || len(as.Lhs) != 1 || len(as.Rhs) != 1 {
					continue
				}
				var obj types.Object
				switch l := ast.Unparen(as.Lhs[0]).(type) {
				case *ast.Ident:
					obj = info.Uses[l]
				case *ast.SelectorExpr:
					if sel := info.Selections[l]; sel != nil && sel.Kind() == types.FieldVal {
						obj = sel.Obj()
					}
				}
				if obj == nil {
					continue
				}
				tv := info.Types[as.Rhs[0]]
				out = append(out, guardedAssign{Fn: fn, Var: obj, Const: k, Pos: as.Pos(), RHSLit: tv.Value != nil, RHSVal: func() string { if tv.Value != nil { return tv.Value.ExactString() }; return "" }()})
			}
			return true
		})
	}
	return out
}

func (c *Ctx) runGuardAgree(r *Report, rule string, pkgs func(string) bool) {
	type key struct {
		fn *funcInfo
		v  types.Object
	}
	groups := map[key][]guardedAssign{}
	var keys []key
	for _, g := range c.guardedAssigns() {
		if !pkgs(g.Fn.Pkg.Rel) {
			continue
		}
		k := key{g.Fn, g.Var}
		if groups[k] == nil {
			keys = append(keys, k)
		}
		groups[k] = append(groups[k], g)
	}
	n := 0
	for _, k := range keys {
		gs := groups[k]
		if len(gs) < 2 {
			continue
		}
		// a table written as ifs: pairwise different constants assigned
		vals := map[string]bool{}
		allLit := true
		for _, g := range gs {
			if !g.RHSLit {
				allLit = false
			}
			vals[g.RHSVal] = true
		}
		if allLit && len(vals) == len(gs) {
			continue
		}
		n++
		consts := map[string]int{}
		for _, g := range gs {
			consts[g.Const.Name()]++
		}
		cons := k.fn.id() + ":" + k.v.Name()
		pos := c.pos(gs[0].Pos)
		if len(consts) == 1 {
			r.ok(rule, cons, pos, "")
			continue
		}
		var cs, ps []string
		for name := range consts {
			cs = append(cs, name)
		}
		sort.Strings(cs)
		for _, g := range gs {
			ps = append(ps, c.pos(g.Pos))
		}
		r.viol(rule, cons, strings.Join(ps, ","), k.fn.id()+" records "+k.v.Name()+" at "+itoa(len(gs))+" sites but under different tests ("+strings.Join(cs, " vs ")+"): on one path the wrong entity is recorded")
	}
	r.inst("guard.agree", n)
}

func init() {
	dumpers["guardagree"] = func(c *Ctx, parts []string) {
		type key struct {
			fn *funcInfo
			v  types.Object
		}
		groups := map[key][]guardedAssign{}
		for _, g := range c.guardedAssigns() {
			k := key{g.Fn, g.Var}
			groups[k] = append(groups[k], g)
		}
		var lines []string
		for k, gs := range groups {
			if len(gs) < 2 {
				continue
			}
			consts := map[string]int{}
			lit := 0
			for _, g := range gs {
				consts[g.Const.Name()]++
				if g.RHSLit {
					lit++
				}
			}
			var cs []string
			for n, i := range consts {
				cs = append(cs, n+"x"+itoa(i))
			}
			sort.Strings(cs)
			lines = append(lines, k.fn.id()+" "+k.v.Name()+" lit="+itoa(lit)+"/"+itoa(len(gs))+" "+strings.Join(cs, ",")+" "+c.pos(gs[0].Pos))
		}
		sort.Strings(lines)
		for _, l := range lines {
			println(l)
		}
	}
}
