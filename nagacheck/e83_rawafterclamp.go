package main

import (
	"go/ast"
	"go/token"
	"go/types"
)

// clamp.rawafter (C15): the SPIR-V Restrict path clamps a run-time operand
// (level, sample, coordinate) with UMin and must use the clamped value from
// then on. Where a function passes a variable V (or *V) as the value operand
// of a UMin instruction and keeps the result in another variable, every later
// read of V is a use of the unclamped value - unless V itself was re-pointed
// to the clamped result in the same statement list. An out-of-range level
// that reaches OpImageQuerySizeLod makes the size, and with it the coordinate
// clamp, undefined.
func (c *Ctx) runRawAfterClamp(r *Report, rule string, pkg string) {
	n := 0
	for _, fn := range c.allFuncs() {
		if fn.Pkg.Rel != pkg || fn.Obj == nil || fn.Decl.Body == nil {
			continue
		}
		info := fn.Pkg.Info
		isUMin := func(call *ast.CallExpr) (operand types.Object, ok bool) {
			hasUMin := false
			for _, a := range call.Args {
				if id, isID := ast.Unparen(a).(*ast.Ident); isID {
					if cst, isC := info.Uses[id].(*types.Const); isC && cst.Name() == "GLSLstd450UMin" {
						hasUMin = true
						continue
					}
				}
				if hasUMin && operand == nil {
					// the first operand after the opcode is the value being clamped
					e := ast.Unparen(a)
					if st, isStar := e.(*ast.StarExpr); isStar {
						e = ast.Unparen(st.X)
					}
					if id, isID := e.(*ast.Ident); isID {
						operand = info.ObjectOf(id)
					}
					break
				}
			}
			return operand, hasUMin && operand != nil
		}
		// walk statement lists
		var lists [][]ast.Stmt
		ast.Inspect(fn.Decl.Body, func(m ast.Node) bool {
			switch x := m.(type) {
			case *ast.BlockStmt:
				lists = append(lists, x.List)
			case *ast.CaseClause:
				lists = append(lists, x.Body)
			}
			return true
		})
		ord := map[string]int{}
		for _, list := range lists {
			for i, st := range list {
				as, ok := st.(*ast.AssignStmt)
				if !ok || len(as.Rhs) != 1 {
					continue
				}
				call, ok := ast.Unparen(as.Rhs[0]).(*ast.CallExpr)
				if !ok {
					continue
				}
				v, ok := isUMin(call)
				if !ok {
					continue
				}
				// only pointer / id variables that are parameters or locals of integer-ish type
				n++
				ord[v.Name()]++
				cons := fn.id() + ":UMin(" + v.Name() + ")#" + itoa(ord[v.Name()])
				// re-pointed in the rest of this list?
				repointed := false
				for _, later := range list[i+1:] {
					if la, ok := later.(*ast.AssignStmt); ok {
						for _, l := range la.Lhs {
							if id, ok := l.(*ast.Ident); ok && info.ObjectOf(id) == v {
								repointed = true
							}
						}
					}
				}
				if repointed {
					r.ok(rule, cons, c.pos(call.Pos()), "")
					continue
				}
				// any read of v after this list ends?
				end := list[len(list)-1].End()
				var rawUse token.Pos
				ast.Inspect(fn.Decl.Body, func(k ast.Node) bool {
					if id, ok := k.(*ast.Ident); ok && id.Pos() > end && info.ObjectOf(id) == v && !rawUse.IsValid() {
						rawUse = id.Pos()
					}
					return true
				})
				// reads inside the same list after the clamp count too
				for _, later := range list[i+1:] {
					ast.Inspect(later, func(k ast.Node) bool {
						if id, ok := k.(*ast.Ident); ok && info.ObjectOf(id) == v && !rawUse.IsValid() {
							rawUse = id.Pos()
						}
						return true
					})
				}
				if rawUse.IsValid() {
					r.viol(rule, cons, c.pos(rawUse), fn.id()+" clamps "+v.Name()+" with UMin and reads "+v.Name()+" again afterwards without re-pointing it to the clamped result: the unclamped value reaches a later instruction")
				} else {
					r.ok(rule, cons, c.pos(call.Pos()), "")
				}
			}
		}
	}
	r.inst(rule, n)
}

func init() {
	dumpers["rawafterclamp"] = func(c *Ctx, parts []string) {
		r := newReport("dump")
		c.runRawAfterClamp(r, "clamp.rawafter", "spirv/internal/codegen")
		for _, o := range r.Obs {
			println(o.Verdict, o.Construct, o.Pos)
		}
	}
}
