package main

// Three small structural rules armed after the fifth seed batch.
//
// shape.samefield (C08, C09): a conjunction that compares two values of the
// same struct type field by field (a.Columns == p.Columns && a.Rows == p.Rows)
// - at least two comparisons between fields of the same two values - is an
// equality test of shapes: every comparison in it relates a field to the SAME
// field of the other value. (A single cross comparison on its own, as in the
// matrix-product rule left.Columns == right.Rows, is not such a chain.)
//
// flag.nest (C11, C08): a boolean context field that is set around a call which
// can re-enter the same function (statement / block recursion) must be restored
// from a saved copy, not reset to a constant: with `f = true; recurse(); f =
// false` the inner activation's reset ends the outer activation's context early
// (statements after a nested loop inside a continuing block are no longer
// checked as "in continuing").
//
// attrs.independent (C07, C17): an if / else-if chain whose conditions read
// different attributes of one attribute list and whose bodies assign different
// variables couples independent attributes: the second is ignored whenever the
// first is present (@align(16) @size(32) loses the size).

import (
	"go/ast"
	"go/token"
	"go/types"
	"strings"
)

func (c *Ctx) runSameField(r *Report, rule string, pkgs func(string) bool) {
	n := 0
	for _, fn := range c.allFuncs() {
		if !pkgs(fn.Pkg.Rel) {
			continue
		}
		info := fn.Pkg.Info
		ord := map[string]int{}
		seen := map[ast.Expr]bool{}
		ast.Inspect(fn.Decl.Body, func(m ast.Node) bool {
			be, ok := m.(*ast.BinaryExpr)
			if !ok || be.Op != token.LAND || seen[be] {
				return true
			}
			// flatten the maximal && chain
			var conj []ast.Expr
			var flat func(e ast.Expr)
			flat = func(e ast.Expr) {
				e = ast.Unparen(e)
				if b, ok := e.(*ast.BinaryExpr); ok && b.Op == token.LAND {
					seen[b] = true
					flat(b.X)
					flat(b.Y)
					return
				}
				conj = append(conj, e)
			}
			flat(be)
			type cmp struct {
				lx, rx string
				lf, rf string
				pos    token.Pos
			}
			groups := map[string][]cmp{}
			for _, e := range conj {
				b, ok := e.(*ast.BinaryExpr)
				if !ok || b.Op != token.EQL {
					continue
				}
				ls, ok1 := ast.Unparen(b.X).(*ast.SelectorExpr)
				rs, ok2 := ast.Unparen(b.Y).(*ast.SelectorExpr)
				if !ok1 || !ok2 {
					continue
				}
				lt, rt := info.TypeOf(ls.X), info.TypeOf(rs.X)
				if lt == nil || rt == nil || !types.Identical(lt, rt) {
					continue
				}
				if _, isStruct := types.Unalias(lt).Underlying().(*types.Struct); !isStruct {
					continue
				}
				lx, rx := types.ExprString(ls.X), types.ExprString(rs.X)
				if lx == rx {
					continue
				}
				k := lx + "~" + rx
				groups[k] = append(groups[k], cmp{lx, rx, ls.Sel.Name, rs.Sel.Name, b.Pos()})
			}
			for k, g := range groups {
				if len(g) < 2 {
					continue
				}
				n++
				key := fn.id() + ":" + noSpace(k)
				ord[key]++
				cons := key + "#" + itoa(ord[key])
				bad := ""
				for _, x := range g {
					if x.lf != x.rf {
						bad = x.lx + "." + x.lf + " == " + x.rx + "." + x.rf
					}
				}
				if bad == "" {
					r.ok(rule, cons, c.pos(g[0].pos), "")
				} else {
					r.viol(rule, cons, c.pos(g[0].pos), fn.id()+" compares two "+namedName(info.TypeOf(ast.Unparen(conj[0])))+"values field by field, but "+bad+" relates different fields: shapes that differ only in the field left out compare equal, and equal non-square shapes compare unequal")
				}
			}
			return true
		})
	}
	r.inst("shape.samefield", n)
}

// reaches: can a call of f (transitively, static callees in the same package) reach target?
func (c *Ctx) reachesFunc(from, target *types.Func, memo map[*types.Func]int) bool {
	if from == target {
		return true
	}
	if v, ok := memo[from]; ok {
		return v == 1
	}
	memo[from] = 0
	fi := c.funcByObj(from)
	if fi == nil || fi.Decl.Body == nil {
		return false
	}
	hit := false
	ast.Inspect(fi.Decl.Body, func(m ast.Node) bool {
		if hit {
			return false
		}
		if call, ok := m.(*ast.CallExpr); ok {
			if f := calleeOf(fi.Pkg.Info, call); f != nil && f.Pkg() == from.Pkg() {
				if c.reachesFunc(f.Origin(), target, memo) {
					hit = true
				}
			}
		}
		return true
	})
	if hit {
		memo[from] = 1
	}
	return hit
}

func (c *Ctx) runFlagNest(r *Report, rule string, pkgs func(string) bool, exceptions map[string]string) {
	n := 0
	for _, fn := range c.allFuncs() {
		if !pkgs(fn.Pkg.Rel) || fn.Obj == nil {
			continue
		}
		info := fn.Pkg.Info
		memo := map[*types.Func]int{}
		ord := map[string]int{}
		var lists [][]ast.Stmt
		ast.Inspect(fn.Decl.Body, func(m ast.Node) bool {
			switch x := m.(type) {
			case *ast.BlockStmt:
				lists = append(lists, x.List)
			case *ast.CaseClause:
				lists = append(lists, x.Body)
			}
			return true
		})
		isBoolLit := func(e ast.Expr) (bool, bool) {
			id, ok := ast.Unparen(e).(*ast.Ident)
			if !ok {
				return false, false
			}
			if cst, ok := info.Uses[id].(*types.Const); ok && cst.Pkg() == nil {
				return id.Name == "true", id.Name == "true" || id.Name == "false"
			}
			return false, false
		}
		fieldAssign := func(s ast.Stmt) (string, ast.Expr, bool) {
			as, ok := s.(*ast.AssignStmt)
			if !ok || len(as.Lhs) != 1 || len(as.Rhs) != 1 || as.Tok != token.ASSIGN {
				return "", nil, false
			}
			se, ok := ast.Unparen(as.Lhs[0]).(*ast.SelectorExpr)
			if !ok {
				return "", nil, false
			}
			v, ok := info.Uses[se.Sel].(*types.Var)
			if !ok || !v.IsField() {
				return "", nil, false
			}
			if b, ok := v.Type().Underlying().(*types.Basic); !ok || b.Kind() != types.Bool {
				return "", nil, false
			}
			return types.ExprString(se), as.Rhs[0], true
		}
		for _, list := range lists {
			for i, s := range list {
				name, rhs, ok := fieldAssign(s)
				if !ok {
					continue
				}
				val, isLit := isBoolLit(rhs)
				if !isLit {
					continue
				}
				// the next assignment to the same field in this list
				for j := i + 1; j < len(list); j++ {
					name2, rhs2, ok2 := fieldAssign(list[j])
					if !ok2 || name2 != name {
						continue
					}
					// a re-entering call in between?
					reenters := false
					for k := i + 1; k < j; k++ {
						for _, call := range callsIn(list[k]) {
							if f := calleeOf(info, call); f != nil && f.Pkg() == fn.Obj.Pkg() && c.reachesFunc(f.Origin(), fn.Obj, memo) {
								reenters = true
							}
						}
					}
					if !reenters {
						break
					}
					n++
					key := fn.id() + ":" + noSpace(name)
					ord[key]++
					cons := key + "#" + itoa(ord[key])
					val2, isLit2 := isBoolLit(rhs2)
					// set under `if !F {`: the value before was the constant it is reset to
					knownBefore := false
					ast.Inspect(fn.Decl.Body, func(m ast.Node) bool {
						ifs, ok := m.(*ast.IfStmt)
						if !ok || s.Pos() < ifs.Body.Pos() || s.Pos() >= ifs.Body.End() {
							return true
						}
						cond := ast.Unparen(ifs.Cond)
						if u, ok := cond.(*ast.UnaryExpr); ok && u.Op == token.NOT && types.ExprString(ast.Unparen(u.X)) == name && val {
							knownBefore = true
						}
						if types.ExprString(cond) == name && !val {
							knownBefore = true
						}
						return true
					})
					if isLit2 && val2 != val && knownBefore {
						r.ok(rule, cons, c.pos(list[j].Pos()), "the field is known to hold the reset value before (enclosing test)")
					} else if isLit2 && val2 != val && exceptions[cons] != "" {
						r.exc(rule, cons, c.pos(list[j].Pos()), exceptions[cons])
					} else if isLit2 && val2 != val {
						r.viol(rule, cons, c.pos(list[j].Pos()), fn.id()+" sets "+name+" around a call that can re-enter "+fn.Name+" and then resets it to the constant "+types.ExprString(rhs2)+" instead of the value saved before: a nested activation ends the enclosing activation's context early")
					} else {
						r.ok(rule, cons, c.pos(list[j].Pos()), "")
					}
					break
				}
			}
		}
	}
	r.inst("flag.nest", n)
}

func (c *Ctx) runAttrsIndependent(r *Report, rule string, pkgs func(string) bool) {
	n, chains := 0, 0
	for _, fn := range c.allFuncs() {
		if !pkgs(fn.Pkg.Rel) {
			continue
		}
		info := fn.Pkg.Info
		// attribute reads: if v := f(X.Attributes); ... { target = v }
		attrRead := func(ifs *ast.IfStmt) (getter string, target types.Object) {
			as, ok := ifs.Init.(*ast.AssignStmt)
			if !ok || len(as.Rhs) != 1 {
				return "", nil
			}
			call, ok := ast.Unparen(as.Rhs[0]).(*ast.CallExpr)
			if !ok {
				return "", nil
			}
			isAttr := false
			for _, a := range call.Args {
				if se, ok := ast.Unparen(a).(*ast.SelectorExpr); ok && se.Sel.Name == "Attributes" {
					isAttr = true
				}
			}
			f := calleeOf(info, call)
			if !isAttr || f == nil {
				return "", nil
			}
			for _, st := range ifs.Body.List {
				if a2, ok := st.(*ast.AssignStmt); ok && len(a2.Lhs) == 1 {
					if id, ok := a2.Lhs[0].(*ast.Ident); ok {
						return f.Name(), info.ObjectOf(id)
					}
				}
			}
			return f.Name(), nil
		}
		ord := 0
		ast.Inspect(fn.Decl.Body, func(m ast.Node) bool {
			ifs, ok := m.(*ast.IfStmt)
			if !ok {
				return true
			}
			g1, t1 := attrRead(ifs)
			if g1 == "" {
				return true
			}
			n++
			ord++
			cons := fn.id() + ":" + g1 + "#" + itoa(ord)
			if els, ok := ifs.Else.(*ast.IfStmt); ok {
				g2, t2 := attrRead(els)
				if g2 != "" && g2 != g1 && t1 != nil && t2 != nil && t1 != t2 {
					chains++
					r.viol(rule, cons, c.pos(ifs.Pos()), fn.id()+" reads "+g2+" only in the else branch of "+g1+": the two attributes are independent (they set "+t1.Name()+" and "+t2.Name()+"), so a declaration carrying both loses the second")
					return true
				}
			}
			r.ok(rule, cons, c.pos(ifs.Pos()), "")
			return true
		})
	}
	_ = strings.TrimSpace
	r.inst("attrs.independent", n)
}

// parse.forheader (C11, C19): WGSL allows only a declaration, an assignment, an
// increment / decrement or a call in the init / update clause of a for loop. A
// parser function that parses a statement in "header mode" - it sets a bool
// field, calls the general statement dispatcher (the function whose body is a
// switch over >= 8 lookahead token kinds, each arm returning a sub-parser) and
// resets the field - must first look at the lookahead token and reject every
// statement starter the dispatcher knows that cannot appear there (control flow,
// blocks, const_assert): it must mention each of those token kinds.
const (
	sameFieldClause  = "shape equality (E34): a conjunction that compares two values of the same struct type through two or more field comparisons relates each field to the same field of the other value (a.Columns == p.Columns && a.Rows == p.Rows)"
	flagNestClause   = "nested context flags (E34): a boolean context field set around a call that can re-enter the same function is restored from a saved copy (or was tested to hold the reset value), never reset to a constant - a nested loop inside a continuing block does not end the continuing context"
	attrsIndepClause = "independent attributes (E34): reads of different attributes of one declaration that set different variables are not chained with else-if (a member with both @align and @size keeps both)"
	forHeaderClause  = "for-loop header (E34): a parser function that parses a statement in header mode through the general statement dispatcher first looks for every statement starter that WGSL does not allow there (return, if, for, while, loop, break, continue, discard, switch, const_assert, a block)"
)

var flagNestExceptions = map[string]string{
	"wgsl/internal/parser.Parser.forHeaderStatement:p.inForHeader#1": "the dispatcher is called only after the lookahead token has been checked not to start a statement that can contain statements (parse.forheader), so forHeaderStatement is not re-entered while the flag is set",
}

var forHeaderForbidden = []string{"TokenReturn", "TokenIf", "TokenFor", "TokenWhile", "TokenLoop", "TokenBreak", "TokenContinue", "TokenDiscard", "TokenSwitch", "TokenConstAssert", "TokenLeftBrace"}

func (c *Ctx) runForHeader(r *Report, rule string, pkg string) {
	n := 0
	// the dispatcher
	var disp *types.Func
	dispKinds := map[string]bool{}
	for _, fn := range c.allFuncs() {
		if fn.Pkg.Rel != pkg || fn.Obj == nil {
			continue
		}
		info := fn.Pkg.Info
		for _, st := range fn.Decl.Body.List {
			sw, ok := st.(*ast.SwitchStmt)
			if !ok || sw.Tag != nil {
				continue
			}
			kinds := map[string]bool{}
			for _, cl := range sw.Body.List {
				cc := cl.(*ast.CaseClause)
				for _, e := range cc.List {
					if call, ok := ast.Unparen(e).(*ast.CallExpr); ok && len(call.Args) == 1 {
						if id, ok := ast.Unparen(call.Args[0]).(*ast.Ident); ok {
							if k, ok := info.Uses[id].(*types.Const); ok && strings.HasPrefix(k.Name(), "Token") {
								kinds[k.Name()] = true
							}
						}
					}
				}
			}
			if len(kinds) >= 8 && kinds["TokenReturn"] && kinds["TokenIf"] && len(kinds) > len(dispKinds) {
				disp = fn.Obj
				dispKinds = kinds
			}
		}
	}
	if disp == nil {
		r.undecided(rule, pkg+":statement-dispatcher", "", "no statement dispatcher found")
		return
	}
	for _, fn := range c.allFuncs() {
		if fn.Pkg.Rel != pkg || fn.Obj == nil || fn.Obj == disp {
			continue
		}
		info := fn.Pkg.Info
		// flag = true; ... disp() ...; flag = false in one statement list
		headerMode := false
		ast.Inspect(fn.Decl.Body, func(m ast.Node) bool {
			blk, ok := m.(*ast.BlockStmt)
			if !ok {
				return true
			}
			setAt := -1
			for i, st := range blk.List {
				if as, ok := st.(*ast.AssignStmt); ok && len(as.Lhs) == 1 && len(as.Rhs) == 1 {
					if se, ok := as.Lhs[0].(*ast.SelectorExpr); ok {
						if v, ok := info.Uses[se.Sel].(*types.Var); ok && v.IsField() {
							if id, ok := as.Rhs[0].(*ast.Ident); ok && id.Name == "true" {
								setAt = i
								continue
							}
						}
					}
				}
				if setAt >= 0 {
					for _, call := range callsIn(st) {
						if f := calleeOf(info, call); f != nil && f.Origin() == disp {
							headerMode = true
						}
					}
				}
			}
			return true
		})
		if !headerMode {
			continue
		}
		mentioned := map[string]bool{}
		ast.Inspect(fn.Decl.Body, func(m ast.Node) bool {
			if id, ok := m.(*ast.Ident); ok {
				if k, ok := info.Uses[id].(*types.Const); ok {
					mentioned[k.Name()] = true
				}
			}
			return true
		})
		for _, k := range forHeaderForbidden {
			if !dispKinds[k] {
				continue
			}
			n++
			cons := fn.id() + ":" + k
			if mentioned[k] {
				r.ok(rule, cons, c.pos(fn.Decl.Pos()), "")
			} else {
				r.viol(rule, cons, c.pos(fn.Decl.Pos()), fn.id()+" parses a statement in for-header mode through the general statement dispatcher without looking for "+k+": a statement starting with that token is accepted in the init / update clause of a for loop, where WGSL allows only declarations, assignments, increments and calls")
			}
		}
	}
	r.inst("parse.forheader", n)
}

func init() {
	dumpers["misc34"] = func(c *Ctx, parts []string) {
		r := newReport("dump")
		all := func(string) bool { return true }
		c.runSameField(r, "shape.samefield", all)
		c.runFlagNest(r, "flag.nest", all, nil)
		c.runAttrsIndependent(r, "attrs.independent", all)
		c.runForHeader(r, "parse.forheader", "wgsl/internal/parser")
		for _, o := range r.Obs {
			println(o.Verdict, o.Rule, o.Construct, o.Pos, o.Msg)
		}
	}
}
