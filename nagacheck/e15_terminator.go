package main

// term.lastonly (C03, C04, C05): the text backends decide whether a switch
// clause needs a closing `break;` with a predicate over the clause body that
// looks at its LAST statement only. Answering "terminated" for a body that can
// fall out of its end makes the emitted clause fall through into the next case
// label, which WGSL never does. The predicate may therefore answer true only
// for Break / Continue / Return / Kill; for a trailing nested block only what
// it answers for that block; for a trailing `if` only when BOTH arms are
// terminated (`p(Accept) && p(Reject)`); for a trailing switch only when a loop
// over its cases answers false as soon as one case body is not terminated; for
// anything else false. The same holds for the "body ends in a return" predicates
// that decide whether a function needs a trailing default return.

import (
	"go/ast"
	"go/token"
	"go/types"
	"sort"
	"strings"
)

var terminatorKinds = map[string]bool{"StmtBreak": true, "StmtContinue": true, "StmtReturn": true, "StmtKill": true}

func isBlockType(t types.Type) bool {
	if n := namedOf(t); n != nil && n.Obj().Name() == "Block" && n.Obj().Pkg() != nil && relPkg(n.Obj().Pkg().Path()) == "ir" {
		return true
	}
	if sl, ok := types.Unalias(t).Underlying().(*types.Slice); ok {
		return irTypeName(sl.Elem()) == "Statement"
	}
	return false
}

func (c *Ctx) runTerminatorPredicates(r *Report, rule string, pkgs func(string) bool) {
	n := 0
	for _, fn := range c.allFuncs() {
		if !pkgs(fn.Pkg.Rel) || fn.Obj == nil {
			continue
		}
		sig := fn.Obj.Type().(*types.Signature)
		if sig.Params().Len() != 1 || sig.Results().Len() != 1 || !isBlockType(sig.Params().At(0).Type()) {
			continue
		}
		if b, ok := sig.Results().At(0).Type().Underlying().(*types.Basic); !ok || b.Kind() != types.Bool {
			continue
		}
		info := fn.Pkg.Info
		param := sig.Params().At(0)
		// looks at p[len(p)-1] and nowhere else by index / range
		lastOnly, other := false, false
		ast.Inspect(fn.Decl.Body, func(nd ast.Node) bool {
			switch x := nd.(type) {
			case *ast.IndexExpr:
				if id, ok := ast.Unparen(x.X).(*ast.Ident); ok && info.Uses[id] == param {
					if be, ok := ast.Unparen(x.Index).(*ast.BinaryExpr); ok && be.Op == token.SUB {
						if call, ok := ast.Unparen(be.X).(*ast.CallExpr); ok {
							if f, ok := ast.Unparen(call.Fun).(*ast.Ident); ok && f.Name == "len" {
								lastOnly = true
								return true
							}
						}
					}
					other = true
				}
			case *ast.RangeStmt:
				if id, ok := ast.Unparen(x.X).(*ast.Ident); ok && info.Uses[id] == param {
					other = true
				}
			}
			return true
		})
		if !lastOnly || other {
			continue
		}
		n++
		isSelfCall := func(e ast.Expr) bool {
			call, ok := ast.Unparen(e).(*ast.CallExpr)
			return ok && calleeOf(info, call) == fn.Obj
		}
		var bad []string
		pos := c.pos(fn.Decl.Pos())
		ast.Inspect(fn.Decl.Body, func(nd ast.Node) bool {
			ts, ok := nd.(*ast.TypeSwitchStmt)
			if !ok {
				return true
			}
			for _, cl := range ts.Body.List {
				cc := cl.(*ast.CaseClause)
				var labels []string
				for _, l := range cc.List {
					if tv, ok := info.Types[l]; ok {
						labels = append(labels, irTypeName(tv.Type))
					}
				}
				sort.Strings(labels)
				allTerm := len(labels) > 0
				for _, l := range labels {
					if !terminatorKinds[l] {
						allTerm = false
					}
				}
				lab := strings.Join(labels, ",")
				if cc.List == nil {
					lab = "default"
				}
				// switch idiom: `for ... s.Cases { if !p(case.Body) { return false } }; return len(s.Cases) > 0`
				switchLoopOK := false
				if lab == "StmtSwitch" {
					for _, s := range cc.Body {
						ast.Inspect(s, func(m ast.Node) bool {
							var body *ast.BlockStmt
							switch l := m.(type) {
							case *ast.RangeStmt:
								body = l.Body
							case *ast.ForStmt:
								body = l.Body
							}
							if body == nil {
								return true
							}
							ast.Inspect(body, func(k ast.Node) bool {
								ifs, ok := k.(*ast.IfStmt)
								if !ok {
									return true
								}
								// the condition is `!p(body)` or a conjunction containing it
								neg := false
								var conj func(e ast.Expr)
								conj = func(e ast.Expr) {
									e = ast.Unparen(e)
									if be, ok := e.(*ast.BinaryExpr); ok && be.Op == token.LAND {
										conj(be.X)
										conj(be.Y)
										return
									}
									if ue, ok := e.(*ast.UnaryExpr); ok && ue.Op == token.NOT && isSelfCall(ue.X) {
										neg = true
									}
								}
								conj(ifs.Cond)
								if !neg || len(ifs.Body.List) != 1 {
									return true
								}
								if ret, ok := ifs.Body.List[0].(*ast.ReturnStmt); ok && len(ret.Results) == 1 {
									if tv, ok := info.Types[ret.Results[0]]; ok && tv.Value != nil && tv.Value.ExactString() == "false" {
										switchLoopOK = true
									}
								}
								return true
							})
							return true
						})
					}
				}
				for _, s := range cc.Body {
					ast.Inspect(s, func(m ast.Node) bool {
						ret, ok := m.(*ast.ReturnStmt)
						if !ok || len(ret.Results) != 1 {
							return true
						}
						e := ast.Unparen(ret.Results[0])
						if tv, ok := info.Types[e]; ok && tv.Value != nil {
							if tv.Value.ExactString() == "true" && !allTerm {
								bad = append(bad, "answers true for a body ending in "+lab)
							}
							return true
						}
						switch {
						case allTerm:
						case lab == "StmtBlock" && isSelfCall(e):
						case lab == "StmtSwitch" && switchLoopOK && strings.HasPrefix(types.ExprString(e), "len(") && strings.HasSuffix(types.ExprString(e), ") > 0"):
						case lab == "StmtIf":
							be, ok := e.(*ast.BinaryExpr)
							if !ok || be.Op != token.LAND || !isSelfCall(be.X) || !isSelfCall(be.Y) || types.ExprString(be.X) == types.ExprString(be.Y) {
								bad = append(bad, "for a body ending in an if it answers `"+types.ExprString(e)+"` instead of requiring both arms to be terminated")
							}
						default:
							bad = append(bad, "answers `"+types.ExprString(e)+"` for a body ending in "+lab)
						}
						return true
					})
				}
			}
			return true
		})
		cons := fn.id()
		if len(bad) > 0 {
			r.viol(rule, cons, pos, fn.id()+" (last-statement termination predicate) "+strings.Join(bad, "; ")+": a clause body that can run off its end is treated as terminated, so no `break;` is emitted and the clause falls through")
		} else {
			r.ok(rule, cons, pos, "")
		}
	}
	r.inst("term.predicates", n)
}
