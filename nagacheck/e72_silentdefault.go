package main

import (
	"go/ast"
	"go/types"
)

// eval.silentdefault (C17, C11, C14): an attribute argument or other piece of
// source syntax is evaluated by a function that takes a parser.Expr and
// answers (value, ok). Where the caller writes `if v, ok := eval(x); ok { use v }`
// with no else branch, a failed evaluation is silently replaced by whatever
// the target held before (the default): `@workgroup_size(wg)` with an override
// wg compiled to local size 1. The failure must be reported, or handled in an
// else branch.
func (c *Ctx) runSilentDefault(r *Report, rule string, pkg string, exceptions map[string]string) {
	n := 0
	for _, fn := range c.allFuncs() {
		if fn.Pkg.Rel != pkg || fn.Obj == nil || fn.Decl.Body == nil {
			continue
		}
		info := fn.Pkg.Info
		ord := map[string]int{}
		ast.Inspect(fn.Decl.Body, func(m ast.Node) bool {
			is, ok := m.(*ast.IfStmt)
			if !ok || is.Init == nil {
				return true
			}
			as, ok := is.Init.(*ast.AssignStmt)
			if !ok || len(as.Lhs) != 2 || len(as.Rhs) != 1 {
				return true
			}
			call, ok := ast.Unparen(as.Rhs[0]).(*ast.CallExpr)
			if !ok {
				return true
			}
			f := calleeOf(info, call)
			if f == nil {
				return true
			}
			sig := f.Type().(*types.Signature)
			if sig.Results().Len() != 2 {
				return true
			}
			if b, ok := sig.Results().At(1).Type().Underlying().(*types.Basic); !ok || b.Kind() != types.Bool {
				return true
			}
			takesExpr := false
			for i := 0; i < sig.Params().Len(); i++ {
				if nm := namedOf(sig.Params().At(i).Type()); nm != nil && nm.Obj().Name() == "Expr" && nm.Obj().Pkg() != nil && nm.Obj().Pkg().Name() == "parser" {
					takesExpr = true
				}
			}
			if !takesExpr {
				return true
			}
			okID, isID := as.Lhs[1].(*ast.Ident)
			cid, isC := ast.Unparen(is.Cond).(*ast.Ident)
			if !isID || !isC || info.ObjectOf(okID) != info.ObjectOf(cid) {
				return true
			}
			n++
			ord[f.Name()]++
			cons := fn.id() + ":" + f.Name() + "#" + itoa(ord[f.Name()])
			// a fallback: after the if, the same piece of syntax is handed to another function
			fallback := false
			var synArg string
			for i := 0; i < sig.Params().Len() && i < len(call.Args); i++ {
				if nm := namedOf(sig.Params().At(i).Type()); nm != nil && nm.Obj().Name() == "Expr" {
					synArg = types.ExprString(call.Args[i])
				}
			}
			if synArg != "" {
				ast.Inspect(fn.Decl.Body, func(k ast.Node) bool {
					c2, ok := k.(*ast.CallExpr)
					if !ok || c2.Pos() < is.End() {
						return true
					}
					if f2 := calleeOf(info, c2); f2 == nil || f2 == f {
						return true
					}
					for _, a := range c2.Args {
						if types.ExprString(a) == synArg {
							fallback = true
						}
					}
					return true
				})
			}
			switch {
			case fallback:
				r.ok(rule, cons, c.pos(is.Pos()), "")
			case is.Else != nil:
				r.ok(rule, cons, c.pos(is.Pos()), "")
			case exceptions[cons] != "":
				r.exc(rule, cons, c.pos(is.Pos()), exceptions[cons])
			default:
				r.viol(rule, cons, c.pos(is.Pos()), fn.id()+" uses the value of "+f.Name()+" only when it could be evaluated and has no else branch: source syntax that cannot be evaluated is silently replaced by the previous (default) value instead of being reported")
			}
			return true
		})
	}
	r.inst(rule, n)
}

func init() {
	dumpers["silentdefault"] = func(c *Ctx, parts []string) {
		r := newReport("dump")
		c.runSilentDefault(r, "eval.silentdefault", "wgsl/internal/lower", nil)
		for _, o := range r.Obs {
			println(o.Verdict, o.Construct, o.Pos)
		}
	}
}
