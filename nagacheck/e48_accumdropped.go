package main

// accum.dropped (C01-C05): a local accumulator - declared with its zero value
// (`var mask uint32`, `var values []uint32`) and extended conditionally with
// `|=` or `v = append(v, x)` - holds optional operands collected before the
// instruction is built (the ConstOffset bit and value of an image sample). On
// every path from an accumulating statement to a normal (non-error) exit of the
// function the accumulator must be read; a path that reaches the exit without
// reading it has built its instruction without the collected operands (the
// offset of textureSampleGrad silently dropped). Backward may-analysis over
// go/cfg; error returns do not count as exits.

import (
	"go/ast"
	"go/token"
	"go/types"
)

const accumDroppedClause = "collected operand masks (E48, go/cfg backward may-analysis): what a statement ORs into a local mask declared with its zero value is read on every path to a normal (non-error, non-declining) return - no arm builds its instruction from a fresh literal mask and drops the optional operands collected before"

var accumDroppedExceptions = map[string]string{
	"dxil/internal/emit.usedComponentMask:mask#1": "the only exit that does not read mask returns allMask, the full component mask, a superset of whatever was accumulated",
	"dxil/internal/emit.usedComponentMask:mask#2": "see mask#1",
}

func (c *Ctx) runAccumDropped(r *Report, rule string, pkgs func(string) bool) {
	n := 0
	errorT := types.Universe.Lookup("error").Type()
	for _, fn := range c.allFuncs() {
		if !pkgs(fn.Pkg.Rel) {
			continue
		}
		info := fn.Pkg.Info
		// accumulators: `var V T` (no init) with a |= or self-append statement
		zeroDecl := map[types.Object]bool{}
		ast.Inspect(fn.Decl.Body, func(m ast.Node) bool {
			if ds, ok := m.(*ast.DeclStmt); ok {
				if gd, ok := ds.Decl.(*ast.GenDecl); ok && gd.Tok == token.VAR {
					for _, sp := range gd.Specs {
						vs := sp.(*ast.ValueSpec)
						if len(vs.Values) == 0 {
							for _, nm := range vs.Names {
								if o := info.Defs[nm]; o != nil {
									zeroDecl[o] = true
								}
							}
						}
					}
				}
			}
			return true
		})
		if len(zeroDecl) == 0 {
			continue
		}
		isAccum := func(st ast.Stmt) types.Object {
			as, ok := st.(*ast.AssignStmt)
			if !ok || len(as.Lhs) != 1 || len(as.Rhs) != 1 {
				return nil
			}
			id, ok := as.Lhs[0].(*ast.Ident)
			if !ok {
				return nil
			}
			o := info.Uses[id]
			if o == nil || !zeroDecl[o] {
				return nil
			}
			if as.Tok == token.OR_ASSIGN {
				return o
			}
			if false && as.Tok == token.ASSIGN {
				if call, ok := ast.Unparen(as.Rhs[0]).(*ast.CallExpr); ok && len(call.Args) >= 2 {
					if fid, ok := ast.Unparen(call.Fun).(*ast.Ident); ok {
						if b, ok := info.Uses[fid].(*types.Builtin); ok && b.Name() == "append" {
							if a0, ok := ast.Unparen(call.Args[0]).(*ast.Ident); ok && info.Uses[a0] == o {
								return o
							}
						}
					}
				}
			}
			return nil
		}
		accums := map[types.Object]bool{}
		ast.Inspect(fn.Decl.Body, func(m ast.Node) bool {
			if st, ok := m.(ast.Stmt); ok {
				if o := isAccum(st); o != nil {
					accums[o] = true
				}
			}
			return true
		})
		if len(accums) == 0 {
			continue
		}
		g := c.cfgOf(fn)
		if g == nil {
			continue
		}
		for V := range accums {
			// does node nd read V (other than being an accumulate statement of V)?
			reads := func(nd ast.Node) bool {
				if st, ok := nd.(ast.Stmt); ok && isAccum(st) == V {
					// the appended / or-ed operand may itself read V? ignore
					return false
				}
				hit := false
				ast.Inspect(nd, func(k ast.Node) bool {
					if _, ok := k.(*ast.FuncLit); ok {
						return true // closures reading V count as reads
					}
					if id, ok := k.(*ast.Ident); ok && info.Uses[id] == V {
						hit = true
					}
					return !hit
				})
				return hit
			}
			isErrExit := func(blk int) bool {
				b := g.Blocks[blk]
				if len(b.Nodes) == 0 {
					return false
				}
				rs, ok := b.Nodes[len(b.Nodes)-1].(*ast.ReturnStmt)
				if !ok || len(rs.Results) == 0 {
					return false
				}
				last := ast.Unparen(rs.Results[len(rs.Results)-1])
				if id, ok := last.(*ast.Ident); ok && id.Name == "false" {
					return true // a declining (ok = false) return
				}
				if t := info.TypeOf(last); t == nil || !types.Identical(t, errorT) {
					// a call returning (T, error) as the only result expression
					if call, ok := last.(*ast.CallExpr); ok && len(rs.Results) == 1 {
						_ = call
						return false
					}
					return false
				}
				if id, ok := last.(*ast.Ident); ok && id.Name == "nil" {
					return false
				}
				return true
			}
			// unread[b]: from the START of block b a normal exit is reachable without reading V
			unread := make([]bool, len(g.Blocks))
			for changed := true; changed; {
				changed = false
				for bi := len(g.Blocks) - 1; bi >= 0; bi-- {
					b := g.Blocks[bi]
					if unread[bi] || !b.Live {
						continue
					}
					rd := false
					for _, nd := range b.Nodes {
						if reads(nd) {
							rd = true
							break
						}
					}
					if rd {
						continue
					}
					v := false
					if len(b.Succs) == 0 {
						v = !isErrExit(bi)
						// a block ending in panic(...) is not a normal exit
						if len(b.Nodes) > 0 {
							if es, ok := b.Nodes[len(b.Nodes)-1].(*ast.ExprStmt); ok {
								if call, ok := es.X.(*ast.CallExpr); ok {
									if id, ok := call.Fun.(*ast.Ident); ok && id.Name == "panic" {
										v = false
									}
								}
							}
						}
					}
					for _, s := range b.Succs {
						if unread[s.Index] {
							v = true
						}
					}
					if v {
						unread[bi] = true
						changed = true
					}
				}
			}
			ord := 0
			for bi, b := range g.Blocks {
				for ni, nd := range b.Nodes {
					st, ok := nd.(ast.Stmt)
					if !ok || isAccum(st) != V {
						continue
					}
					n++
					ord++
					cons := fn.id() + ":" + V.Name() + "#" + itoa(ord)
					// rest of the block
					rd := false
					for _, nd2 := range b.Nodes[ni+1:] {
						if reads(nd2) {
							rd = true
							break
						}
					}
					dropped := false
					if !rd {
						if len(b.Succs) == 0 {
							dropped = !isErrExit(bi)
						}
						for _, s := range b.Succs {
							if unread[s.Index] {
								dropped = true
							}
						}
					}
					if dropped && accumDroppedExceptions[cons] != "" {
						r.exc(rule, cons, c.pos(nd.Pos()), accumDroppedExceptions[cons])
					} else if dropped {
						r.viol(rule, cons, c.pos(nd.Pos()), fn.id()+": what this statement adds to "+V.Name()+" is never read on some path to a normal return: the instruction built on that path lacks the collected operand")
					} else {
						r.ok(rule, cons, c.pos(nd.Pos()), "")
					}
				}
			}
		}
	}
	r.inst("accum.dropped", n)
}

func init() {
	dumpers["accumdropped"] = func(c *Ctx, parts []string) {
		r := newReport("dump")
		c.runAccumDropped(r, "accum.dropped", func(string) bool { return true })
		nOK := 0
		for _, o := range r.Obs {
			if o.Verdict == "ok" {
				nOK++
				continue
			}
			println(o.Verdict, o.Construct, o.Pos)
		}
		println("ok:", nOK)
	}
}
