package main

import (
	"go/ast"
	"go/types"
	"sort"
	"strings"
)

// cap.opcode (C02): the SPIR-V specification lists, per instruction, the
// capability a module must declare to use it. For the instructions whose
// capability is not implied by Shader, the function that builds the
// instruction (mentions the opcode constant) must also declare the capability
// (call addCapability with the matching constant) - itself, or every function
// that calls it does. Reference table written from the specification
// (unified1, "Capability" column of each instruction).
var refOpcodeCapability = map[string][]string{
	"OpImageQuerySizeLod":               {"CapabilityImageQuery"},
	"OpImageQuerySize":                  {"CapabilityImageQuery"},
	"OpImageQueryLod":                   {"CapabilityImageQuery"},
	"OpImageQueryLevels":                {"CapabilityImageQuery"},
	"OpImageQuerySamples":               {"CapabilityImageQuery"},
	"OpDPdxFine":                        {"CapabilityDerivativeControl"},
	"OpDPdyFine":                        {"CapabilityDerivativeControl"},
	"OpFwidthFine":                      {"CapabilityDerivativeControl"},
	"OpDPdxCoarse":                      {"CapabilityDerivativeControl"},
	"OpDPdyCoarse":                      {"CapabilityDerivativeControl"},
	"OpFwidthCoarse":                    {"CapabilityDerivativeControl"},
	"OpAtomicFAddEXT":                   {"CapabilityAtomicFloat32AddEXT"},
	"OpGroupNonUniformElect":            {"CapabilityGroupNonUniform"},
	"OpGroupNonUniformAll":              {"CapabilityGroupNonUniformVote"},
	"OpGroupNonUniformAny":              {"CapabilityGroupNonUniformVote"},
	"OpGroupNonUniformAllEqual":         {"CapabilityGroupNonUniformVote"},
	"OpGroupNonUniformBroadcast":        {"CapabilityGroupNonUniformBallot"},
	"OpGroupNonUniformBroadcastFirst":   {"CapabilityGroupNonUniformBallot"},
	"OpGroupNonUniformBallot":           {"CapabilityGroupNonUniformBallot"},
	"OpGroupNonUniformShuffle":          {"CapabilityGroupNonUniformShuffle"},
	"OpGroupNonUniformShuffleXor":       {"CapabilityGroupNonUniformShuffle"},
	"OpGroupNonUniformShuffleUp":        {"CapabilityGroupNonUniformShuffleRel", "CapabilityGroupNonUniformShuffleRelative"},
	"OpGroupNonUniformShuffleDown":      {"CapabilityGroupNonUniformShuffleRel", "CapabilityGroupNonUniformShuffleRelative"},
	"OpGroupNonUniformIAdd":             {"CapabilityGroupNonUniformArithmetic"},
	"OpGroupNonUniformFAdd":             {"CapabilityGroupNonUniformArithmetic"},
	"OpGroupNonUniformIMul":             {"CapabilityGroupNonUniformArithmetic"},
	"OpGroupNonUniformFMul":             {"CapabilityGroupNonUniformArithmetic"},
	"OpGroupNonUniformSMin":             {"CapabilityGroupNonUniformArithmetic"},
	"OpGroupNonUniformUMin":             {"CapabilityGroupNonUniformArithmetic"},
	"OpGroupNonUniformFMin":             {"CapabilityGroupNonUniformArithmetic"},
	"OpGroupNonUniformSMax":             {"CapabilityGroupNonUniformArithmetic"},
	"OpGroupNonUniformUMax":             {"CapabilityGroupNonUniformArithmetic"},
	"OpGroupNonUniformFMax":             {"CapabilityGroupNonUniformArithmetic"},
	"OpGroupNonUniformBitwiseAnd":       {"CapabilityGroupNonUniformArithmetic"},
	"OpGroupNonUniformBitwiseOr":        {"CapabilityGroupNonUniformArithmetic"},
	"OpGroupNonUniformBitwiseXor":       {"CapabilityGroupNonUniformArithmetic"},
	"OpGroupNonUniformQuadBroadcast":    {"CapabilityGroupNonUniformQuad"},
	"OpGroupNonUniformQuadSwap":         {"CapabilityGroupNonUniformQuad"},
	"OpRayQueryInitializeKHR":           {"CapabilityRayQueryKHR"},
	"OpRayQueryProceedKHR":              {"CapabilityRayQueryKHR"},
	"OpRayQueryTerminateKHR":            {"CapabilityRayQueryKHR"},
	"OpRayQueryGenerateIntersectionKHR": {"CapabilityRayQueryKHR"},
	"OpRayQueryConfirmIntersectionKHR":  {"CapabilityRayQueryKHR"},
	"OpRayQueryGetIntersectionTypeKHR":  {"CapabilityRayQueryKHR"},
	"OpSDot":                            {"CapabilityDotProduct"},
	"OpUDot":                            {"CapabilityDotProduct"},
}

func (c *Ctx) runCapOpcode(r *Report, rule string, pkg string, exceptions map[string]string) {
	// per function: opcodes mentioned (outside const declarations), capabilities declared
	type facts struct {
		ops  map[string]ast.Node
		caps map[string]bool
	}
	ff := map[*types.Func]*facts{}
	var fns []*funcInfo
	for _, fn := range c.allFuncs() {
		if fn.Pkg.Rel != pkg || fn.Obj == nil || fn.Decl.Body == nil {
			continue
		}
		info := fn.Pkg.Info
		f := &facts{ops: map[string]ast.Node{}, caps: map[string]bool{}}
		ast.Inspect(fn.Decl.Body, func(m ast.Node) bool {
			switch x := m.(type) {
			case *ast.Ident:
				if k, ok := info.Uses[x].(*types.Const); ok {
					if _, gated := refOpcodeCapability[k.Name()]; gated && f.ops[k.Name()] == nil {
						f.ops[k.Name()] = x
					}
				}
			case *ast.CallExpr:
				if callee := calleeOf(info, x); callee != nil && callee.Name() == "addCapability" {
					for _, a := range x.Args {
						if id, ok := ast.Unparen(a).(*ast.Ident); ok {
							if k, ok := info.Uses[id].(*types.Const); ok {
								f.caps[k.Name()] = true
							}
						}
					}
				}
			}
			return true
		})
		ff[fn.Obj] = f
		fns = append(fns, fn)
	}
	// callers
	callers := map[*types.Func][]*types.Func{}
	g := c.graph()
	for from, tos := range g.out {
		for _, t := range tos {
			callers[t] = append(callers[t], from)
		}
	}
	var declared func(f *types.Func, caps []string, depth int, seen map[*types.Func]bool) bool
	declared = func(f *types.Func, caps []string, depth int, seen map[*types.Func]bool) bool {
		if fa := ff[f]; fa != nil {
			for _, k := range caps {
				if fa.caps[k] {
					return true
				}
			}
		}
		if depth == 0 || seen[f] {
			return false
		}
		seen[f] = true
		cs := callers[f]
		if len(cs) == 0 {
			return false
		}
		for _, cf := range cs {
			if !declared(cf, caps, depth-1, seen) {
				return false
			}
		}
		return true
	}
	n := 0
	sort.Slice(fns, func(i, j int) bool { return fns[i].id() < fns[j].id() })
	for _, fn := range fns {
		f := ff[fn.Obj]
		var ops []string
		for op := range f.ops {
			ops = append(ops, op)
		}
		sort.Strings(ops)
		for _, op := range ops {
			n++
			cons := fn.id() + ":" + op
			caps := refOpcodeCapability[op]
			switch {
			case declared(fn.Obj, caps, 3, map[*types.Func]bool{}):
				r.ok(rule, cons, c.pos(f.ops[op].Pos()), "")
			case exceptions[cons] != "":
				r.exc(rule, cons, c.pos(f.ops[op].Pos()), exceptions[cons])
			default:
				r.viol(rule, cons, c.pos(f.ops[op].Pos()), fn.id()+" builds "+op+", which needs "+strings.TrimPrefix(caps[0], "Capability")+" (SPIR-V specification), but neither it nor all of its callers declare that capability: the module is invalid")
			}
		}
	}
	r.inst(rule, n)
}

func init() {
	dumpers["capopcode"] = func(c *Ctx, parts []string) {
		r := newReport("dump")
		c.runCapOpcode(r, "cap.opcode", "spirv/internal/codegen", nil)
		nOK := 0
		for _, o := range r.Obs {
			if o.Verdict == "ok" {
				nOK++
				continue
			}
			println(o.Verdict, o.Construct, o.Pos)
		}
		println("ok", nOK)
	}
}
