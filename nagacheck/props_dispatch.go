package main

import "strings"

func init() {
	register("C06", propC06)
}

const signExtClause = "widening conversions (E17): every nested conversion W(N(x)) of an integer whose WGSL signedness is visible at the site (static type ir.LiteralI32/U32/..., enclosing ScalarSint/ScalarUint guard, Kind of the ScalarValue being built, kind constant returned with it) uses a fixed-width type N of that signedness, so negative i32 values are sign-extended and u32 values zero-extended"

const kindLimitClause = "integer limits (E17): every compile-time constant of limit magnitude (>= 2^31-256) used under a guard that fixes the scalar kind to signed or to unsigned is one of that kind's limits (INT_MIN/INT_MAX/their f32 and f64 neighbours vs UINT_MAX/...), e.g. the unsigned branch of a range check compares with MaxUint32, not MaxInt32"

func propC06(c *Ctx, r *Report) {
	r.Clauses = append(r.Clauses,
		"evaluator default discipline (E2): every compile-time evaluator (a value-returning function with a switch over an operator / math-function enum or operator token whose arms compute results) declines — ok=false, nil or an error — on every operator it does not implement; it never returns or falls through to a substituted value")
	r.NotDecided = append(r.NotDecided,
		"that any folded value equals the run-time value (wrap-around, rounding, abstract-to-concrete conversion, operand order when operands are carried in containers), that division by zero is diagnosed, sibling evaluators agreeing on implemented operators")
	c.runEvaluators(r, "eval.default", "evaluators", nil, nil)
	r.floor("evaluators", 10)
	r.Clauses = append(r.Clauses, "evaluator operator selection (E2): in every arm of a compile-time evaluator's switch over binary operators (ir.BinaryOperator or the parser's operator tokens) the Go expression that combines the value derived from the left operand with the value derived from the right operand uses the Go operator that has the WGSL operator's meaning, non-commutative operators keep the left operand on the left (comparisons may be mirrored), and the % arm does not round the quotient with Floor/Ceil/Round (WGSL % truncates)")
	c.runEvalOps(r, map[string]bool{"wgsl/internal/lower": true, "ir": true, "msl/internal/codegen": true, "dxil/internal/emit": true, "hlsl/internal/codegen": true, "glsl/internal/codegen": true, "spirv/internal/codegen": true})
	r.floor("evalsel.arms", 120)
	r.Clauses = append(r.Clauses, "evaluator math selection (E2): in every switch over ir.MathFunction the functions of Go's math and math/bits packages referenced in the arm for a builtin are ones with that builtin's meaning (round -> math.RoundToEven, trunc -> math.Trunc, countLeadingZeros -> bits.LeadingZeros32/64, ...; reference table from the WGSL builtin definitions)")
	c.runEvalMath(r, map[string]bool{"wgsl/internal/lower": true, "ir": true, "msl/internal/codegen": true, "dxil/internal/emit": true, "hlsl/internal/codegen": true, "glsl/internal/codegen": true, "spirv/internal/codegen": true})
	r.floor("evalsel.matharms", 25)
	r.Clauses = append(r.Clauses, orderClause+" - here: the lowering of binary expressions, the scalar/vector constant folders and the evaluators of package ir")
	c.runOperandOrder(r, "order.wgsl", inPkgs("wgsl"))
	c.runOperandOrder(r, "order.ir", inPkgs("ir"))
	r.floor("order.wgsl", orderFloors["wgsl"])
	r.floor("order.ir", orderFloors["ir"])
	r.Clauses = append(r.Clauses, "literal text (E10): no strconv.Parse* / Atoi / fmt.Sscan* call in the frontend receives the raw Value text of a parser.Literal (which keeps the WGSL suffix and may be hexadecimal); numeric text goes through the lowerer's literal parsers, so @workgroup_size(64u), @align(0x10), @id(3u) and suffixed override defaults are not silently replaced by defaults")
	c.runLiteralRawParse(r, "literal.rawparse", inPkgs("wgsl"), literalRawParseExceptions)
	r.floor("literal.parses", 25)
	r.Clauses = append(r.Clauses, wgslNamesClause)
	c.runWGSLNameTables(r, "names.wgsltable", "wgsl/internal/lower")
	r.floor("names.wgsltable", 100)
	r.Clauses = append(r.Clauses, signExtClause)
	c.runSignExt(r, "conv.signext", inPkgs("wgsl", "ir"))
	r.floor("conv.signext", 5)
	r.Clauses = append(r.Clauses, kindLimitClause)
	c.runKindLimits(r, "range.kindlimit", inPkgs("wgsl", "ir"))
	r.floor("range.kindlimit", 10)
	r.Clauses = append(r.Clauses, "constant short-circuit (E43): a condition over the logical operator and a constant left operand that guards an early return (the right operand is never lowered) holds only for false && X and true || X - evaluated over the four (operator, value) assignments")
	c.runShortCircuitConst(r, "shortcircuit.const", inPkgs("wgsl", "ir"))
	r.floor("shortcircuit.const", 1)
	r.Clauses = append(r.Clauses, "step at the edge (E43): the constant folder's closure for step(edge, x) answers 1.0 when its two parameters are equal")
	c.runFoldStep(r, "fold.step", inPkgs("wgsl", "ir"))
	r.floor("fold.step", 1)
	r.Clauses = append(r.Clauses, sharedAddrClause)
	c.runSharedAddr(r, "ptr.sharedaddr", inPkgs("wgsl", "ir"))
	r.Clauses = append(r.Clauses, "constant indexing (E43): a folder of AccessIndex that takes the index-th entry of a constructor flattened to scalars first establishes that the base is a vector")
	c.runFoldFlatIndex(r, "fold.flatindex", "wgsl/internal/lower")
	r.floor("fold.flatindex", 1)
	r.Clauses = append(r.Clauses, "numeric literal conversion (E10): no strconv conversion of a WGSL numeric literal in the lowerer discards its error (a literal that is not representable must be an error, not a saturated value)")
	c.runErrflowFiltered(r, inPkgs("wgsl/internal/lower"), nil, func(callee string) bool { return strings.HasPrefix(callee, "strconv.") }, false)
}

// sums/enums whose members reach the backends exactly as the lowerer builds them
var emitDispatchTypes = map[string]bool{"ExpressionKind": true, "StatementKind": true, "TypeInner": true, "MathFunction": true, "BinaryOperator": true, "UnaryOperator": true,
	"RelationalFunction": true, "AtomicFunction": true, "GatherMode": true, "SampleLevel": true, "ImageQuery": true, "RayQueryFunction": true, "SubgroupOperation": true, "CollectiveOperation": true}

var rejectExceptions = []dispatchException{
	{"glsl/internal/codegen.Writer.writeExpressionKind/ExpressionKind", "ExprWorkGroupUniformLoadResult", "the result expression is baked (named) by the StmtWorkGroupUniformLoad statement writer and never reaches the expression dispatcher (probe: workgroupUniformLoad compiles on all four backends)"},
	{"msl/internal/codegen.Writer.writeExpressionKind/ExpressionKind", "ExprWorkGroupUniformLoadResult", "the result expression is baked (named) by the StmtWorkGroupUniformLoad statement writer and never reaches the expression dispatcher"},
	{"hlsl/internal/codegen.mathFunctionToHLSL/MathFunction", "*", "name table only: pack4x8/unpack4x8/dot4*Packed are emitted by dedicated writers before the table is consulted (probe: all compile with hlsl.Compile)"},
	{"spirv/internal/codegen.Backend.emitType/TypeInner", "ValuePointerType", "ValuePointerType only occurs in inline TypeResolution values, never in Module.Types, which is what emitType walks"},
	{"spirv/internal/codegen.ExpressionEmitter.emitMath/MathFunction", "MathOuter", "outerProduct is not a WGSL builtin; no valid WGSL program produces MathOuter"},
}

func init() {
	register("C08", propC08)
	dumpers["reject"] = func(c *Ctx, parts []string) {
		r := newReport("dump")
		propC08(c, r)
		for _, o := range r.Obs {
			if o.Verdict != OK {
				println(o.Verdict, o.Rule, o.Construct, o.Pos, o.Msg)
			}
		}
	}
}

func propC08(c *Ctx, r *Report) {
	r.Clauses = append(r.Clauses,
		"dispatch coverage (E2): every backend dispatcher over an IR sum type or operator enum that handles >= 2/3 of the members and whose default arm returns an error has an arm for every member the WGSL frontend constructs (otherwise a valid program using that construct is rejected by that backend)",
		"per-function lowering state (E5): every Lowerer field written only while a function is being lowered is re-initialised in the prologue of lowerFunction (a valid function is never rejected, or lowered differently, because of what was lowered before it)")
	r.NotDecided = append(r.NotDecided,
		"whether each of the lowerer's explicit error returns rejects only invalid programs; validator rules (break-in-switch context, binding uniqueness per entry point); option-dependent rejections")
	c.runDispatch(r, dispatchConfig{Rule: "dispatch", Family: "emit.dispatchers", Pkg: inPkgs("spirv/internal/codegen", "hlsl/internal/codegen", "msl/internal/codegen", "glsl/internal/codegen"),
		Types: emitDispatchTypes, FalseReject: true, MinFraction: 0.66, Exceptions: rejectExceptions})
	c.runResetScopes(r, lowerResetScopes)
	r.floor("emit.dispatchers", 20)
	r.Clauses = append(r.Clauses, "syntax-tree walkers (E3): every function reachable from the parser / lowerer entry points that walks the parser's tree (a type switch over Expr, Stmt, Type or Decl nodes using every child in >= 3/4 of its arms) uses every child node of every variant it has an arm for and, when it has no default arm, has an arm for every variant that has children (a declaration referenced only through an unvisited child is ordered after its user and the valid program is rejected)")
	c.runFrontendASTWalkers(r, "frontend")
	r.floor("frontend.astwalkers", 8)
	r.Clauses = append(r.Clauses, "explicit dereference (E75): where the lowerer takes a pointer from an explicit `*p` and asks the load rule for the pointee, it handles the rule leaving a pointer value unloaded")
	c.runDerefLoadRule(r, "deref.loadrule", "wgsl/internal/lower")
	r.floor("deref.loadrule", 1)
	r.Clauses = append(r.Clauses, splitRemainderClause)
	c.runSplitRemainder(r, "lex.splitremainder", "wgsl/internal/parser")
	r.floor("lex.splitremainder", 4)
	r.Clauses = append(r.Clauses, userShadowClause, innerFirstClause)
	c.runUserShadow(r, "call.usershadow", "wgsl/internal/lower")
	r.floor("call.usershadow", 1)
	c.runInnerFirst(r, "lookup.innerfirst", "wgsl/internal/lower", nil)
	r.floor("lookup.innerfirst", 2)
	r.Clauses = append(r.Clauses, leaveCleanClause+" - the mirror case rejects a valid program (a true const_assert fails)")
	c.runLeaveClean(r, "scope.leaveclean", lowerResetScopes[0])
	r.floor("scope.leaveclean", 1)
	r.Clauses = append(r.Clauses, "attributes survive a copy (E96): where the lowerer marks a declared name in a per-name attribute table (map[string]bool) under a test of how the initialiser is spelled, the same function consults that table for an initialiser that is itself a name - `let q = p` of a pointer binding p is a pointer binding")
	c.runAliasClosure(r, "attr.aliasclosure", "wgsl/internal/lower")
	r.Clauses = append(r.Clauses, "pointer values through the load rule (E101): a lowerer function that lowers a sub-expression for reference, passes the handle through the load rule and makes the result a value operand of an IR expression (the vector of a swizzle, an operand of arithmetic) compares the result with what it passed in or asks whether the handle is a pointer - `(*p)` with p a pointer parameter stays a pointer")
	c.runForRefValueUse(r, "forref.valueuse", "wgsl/internal/lower")
	r.floor("forref.valueuse", 1)
	r.Clauses = append(r.Clauses, "only scalars are splatted (E102): a lowerer function that wraps a handle it was given into ExprSplat has a positive test that the handle's type is a scalar (an assertion to ir.ScalarType) - \"not a vector\" lets a matrix through (`v *= m`)")
	c.runSplatScalarOperand(r, "splat.scalaroperand", "wgsl/internal/lower")
	r.floor("splat.scalaroperand", 2)
	r.floor("lookup.functionScopeTables", 5)
	r.Clauses = append(r.Clauses, "template list ends (E49): every expectation of the '>' that closes a template list goes through the one helper that also splits '>>', '>=' and '>>='")
	c.runTemplateClose(r, "template.close", "wgsl/internal/parser")
	r.floor("template.close", 5)
	r.Clauses = append(r.Clauses, headerSemiClause)
	c.runHeaderSemicolon(r, "parse.headersemi", "wgsl/internal/parser")
	r.floor("parse.headersemi", 8)
	r.Clauses = append(r.Clauses, argsRoleClause)
	c.runArgsNameRole(r, "args.namerole", inPkgs("wgsl", "ir"))
	r.floor("args.namerole", 20)
	r.Clauses = append(r.Clauses, sameFieldClause)
	c.runSameField(r, "shape.samefield", inPkgs("wgsl", "ir"))
	r.floor("shape.samefield", 3)
	r.Clauses = append(r.Clauses, "block-scoped local names in dependency ordering (E7): the function of the parser's dependency collector that walks the statements of a block gives them a set of local names of its own, so a name declared inside a block does not hide a module-scope declaration after the block (acceptance must not depend on declaration order)")
	c.runDepBlockScope(r, "scope.depblock")
	r.floor("scope.depblock", 1)
	r.Clauses = append(r.Clauses, "trailing commas (E9): every parser loop over a comma-separated list tests the closing token again after each comma, so the valid trailing-comma form of a list is accepted")
	c.runListLoops(r, "parse.listloop")
	r.floor("parser.listloops", 5)
	r.Clauses = append(r.Clauses, "define after initializer (E7, go/cfg): in the parser's dependency walk and the lowerer, no call that consumes the initializer or type of a declaration node (d.Init / d.Type as an argument) is reachable in the control-flow graph from a store that defines the declaration's name (a store into a string-keyed map with key d.Name) - the initializer of let/var/const/override is resolved outside the scope of the name it declares (let x = x + 1 reads the outer x; a self-referential initializer can otherwise recurse without end)")
	c.runDefAfterInit(r, "scope.defafterinit", inPkgs("wgsl/internal/lower", parserRel))
	r.floor("scope.definitions", 12)
	r.Clauses = append(r.Clauses, "scope restore completeness (E5/E7): every string-keyed map of the lowerer into which a declaration function stores a binding under the key it hands to scopeSet is written (assigned or deleted) by popScope - a binding map that block exit does not restore lets a block-local name outlive its block and keeps an inner declaration from shadowing an outer one")
	r.Clauses = append(r.Clauses, "shadowing hygiene (E7): the scope-entry function that saves a shadowed binding's per-name attributes (constant, var, pointer-let, abstract initialiser ...) also clears each of them for the new binding, so no attribute of an outer declaration leaks onto an inner declaration of the same name")
	c.runScopeRestore(r, "scope.restore", "wgsl/internal/lower", "Lowerer", "scopeSet", "popScope", map[string]string{"localDecls": "unused-variable warning bookkeeping (declaration spans): read only by the warning pass, never by name resolution"})
	r.floor("scope.bindingmaps", 4)
}

const userShadowClause = "declared functions shadow built-ins (E67): the lowerer's call dispatcher looks the callee up among the functions the program declares before the first test that recognises the name as a built-in"

const innerFirstClause = "innermost declaration first (E68): a function that looks one name up both in a function-scope table (a string-keyed map field cleared at the start of every function) and in a module-scope table consults the function-scope table first"

const sharedAddrClause = "one cell, one pointer (E84): a local variable of a handle type whose address is taken at two sites of a function is not assigned between the two sites - optional operands (*ExpressionHandle) built from one reused temporary all see its last value (expected count on the pinned tree: 0; positive control: seed C06-g)"
