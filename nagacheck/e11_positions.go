package main

// E11 positions: source positions never influence the lowered module.
// Every read of a value of type parser.Span / parser.Position (and of the
// Line / Column / Offset fields of positions and tokens) in the lowerer must
// flow straight into a diagnostic: an argument whose parameter type is a
// position type, a field of a position type in a composite literal, or an
// assignment to a variable / map element of a position type. A position used
// in a comparison, arithmetic, a branch condition or stored into an IR value
// would make whitespace or comment edits observable in the output.

import (
	"go/ast"
	"go/types"
)

func isPositionType(t types.Type) bool {
	if t == nil {
		return false
	}
	n := namedOf(t)
	if n == nil || n.Obj().Pkg() == nil || relPkg(n.Obj().Pkg().Path()) != "wgsl/internal/parser" {
		return false
	}
	switch n.Obj().Name() {
	case "Span", "Position":
		return true
	}
	return false
}

func (c *Ctx) runPositionSinks(r *Report, rule string, pkgRel string) {
	n := 0
	for _, fn := range c.allFuncs() {
		if fn.Pkg.Rel != pkgRel {
			continue
		}
		info := fn.Pkg.Info
		// parent map
		parents := map[ast.Node]ast.Node{}
		var stack []ast.Node
		ast.Inspect(fn.Decl.Body, func(m ast.Node) bool {
			if m == nil {
				stack = stack[:len(stack)-1]
				return true
			}
			if len(stack) > 0 {
				parents[m] = stack[len(stack)-1]
			}
			stack = append(stack, m)
			return true
		})
		ord := 0
		ast.Inspect(fn.Decl.Body, func(m ast.Node) bool {
			sel, ok := m.(*ast.SelectorExpr)
			if !ok {
				return true
			}
			tv, ok := info.Types[sel]
			if !ok || tv.IsType() {
				return true
			}
			isPos := isPositionType(tv.Type)
			if !isPos {
				// Line / Column / Offset of a position or token
				if xt, ok := info.Types[sel.X]; ok {
					xn := namedName(xt.Type)
					if (xn == "Position" || xn == "Token" || xn == "Span") && (sel.Sel.Name == "Line" || sel.Sel.Name == "Column" || sel.Sel.Name == "Offset") {
						if nn := namedOf(xt.Type); nn != nil && nn.Obj().Pkg() != nil && relPkg(nn.Obj().Pkg().Path()) == "wgsl/internal/parser" {
							isPos = true
						}
					}
				}
			}
			if !isPos {
				return true
			}
			// the outermost position-typed selector chain only
			if p, ok := parents[sel].(*ast.SelectorExpr); ok && p.X == sel {
				if ptv, ok := info.Types[p]; ok && (isPositionType(ptv.Type) || p.Sel.Name == "Line" || p.Sel.Name == "Column" || p.Sel.Name == "Offset") {
					return true
				}
			}
			n++
			ord++
			construct := fn.id() + ":" + types.ExprString(sel)
			construct += "#" + itoa(ord)
			okSink := false
			why := ""
			switch p := parents[sel].(type) {
			case *ast.CallExpr:
				for i, a := range p.Args {
					if a == sel {
						if sig, ok := info.Types[p.Fun].Type.(*types.Signature); ok {
							pi := i
							if pi >= sig.Params().Len() {
								pi = sig.Params().Len() - 1
							}
							if pi >= 0 && (isPositionType(sig.Params().At(pi).Type()) || sig.Variadic()) {
								okSink = true
							}
						}
						// formatting a position into an error message
						if callee := calleeOf(info, p); callee != nil && callee.Pkg() != nil && callee.Pkg().Path() == "fmt" {
							okSink = true
						}
					}
				}
				why = "passed to " + types.ExprString(p.Fun)
			case *ast.KeyValueExpr:
				if p.Value == sel {
					okSink = isPositionType(tv.Type)
				}
				why = "stored in a composite literal field"
			case *ast.AssignStmt:
				for i, rh := range p.Rhs {
					if rh == sel && i < len(p.Lhs) {
						if lt, ok := info.Types[p.Lhs[i]]; ok && isPositionType(lt.Type) {
							okSink = true
						}
						if id, ok := p.Lhs[i].(*ast.Ident); ok {
							if obj := info.Defs[id]; obj != nil && isPositionType(obj.Type()) {
								okSink = true
							}
						}
					}
				}
				why = "assigned"
			case *ast.ReturnStmt:
				okSink = isPositionType(tv.Type)
				why = "returned"
			case *ast.ValueSpec:
				okSink = isPositionType(tv.Type)
			default:
				why = "used in an expression"
			}
			if okSink {
				r.ok(rule, construct, c.pos(sel.Pos()), "flows into a diagnostic / position-typed sink")
			} else {
				r.viol(rule, construct, c.pos(sel.Pos()), fn.id()+" uses source position "+types.ExprString(sel)+" outside a diagnostic ("+why+"): whitespace or comment edits could change the lowered module")
			}
			return true
		})
	}
	r.inst("positions.reads", n)
}

func init() {
	dumpers["positions"] = func(c *Ctx, parts []string) {
		r := newReport("dump")
		c.runPositionSinks(r, "pos.sink", "wgsl/internal/lower")
		for _, o := range r.Obs {
			println(o.Verdict, o.Construct, o.Pos, o.Msg)
		}
	}
}
