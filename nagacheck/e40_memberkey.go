package main

// member.keyagree (C04, C15): a generated struct whose members are declared in
// a loop over a slice F as "<stem>%d" of the slice's ELEMENTS (uint size%d; for
// each global handle in bufferSizeGlobals) is addressed elsewhere as
// ".<stem>%d". The number printed there must be such an element (a global
// handle), never a POSITION in F: a value derived from the range key of a loop
// over F (flow-insensitive taint through locals, conversions and struct fields)
// names a member that does not exist, or another buffer's size, whenever the
// handles are not 0, 1, 2, ...

import (
	"go/ast"
	"go/token"
	"go/types"
	"strconv"
	"strings"
)

const memberKeyClause = "generated member names (E40): where the members of a generated struct are declared as <stem>%d of the elements of a slice, every \".<stem>%d\" reference prints such an element, never a value derived from a position (range key) in that slice"

func (c *Ctx) runMemberKeyAgree(r *Report, rule string, pkg string) {
	n := 0
	type decl struct {
		field *types.Var
		stem  string
	}
	var decls []decl
	var funcs []*funcInfo
	for _, fn := range c.allFuncs() {
		if fn.Pkg.Rel == pkg {
			funcs = append(funcs, fn)
		}
	}
	litOf := func(e ast.Expr) (string, bool) {
		if bl, ok := ast.Unparen(e).(*ast.BasicLit); ok && bl.Kind == token.STRING {
			s, err := strconv.Unquote(bl.Value)
			return s, err == nil
		}
		return "", false
	}
	// 1. declarations: for _, v := range X.F { write("<type> <stem>%d;", v) }
	for _, fn := range funcs {
		info := fn.Pkg.Info
		ast.Inspect(fn.Decl.Body, func(m ast.Node) bool {
			rs, ok := m.(*ast.RangeStmt)
			if !ok || rs.Value == nil {
				return true
			}
			se, ok := ast.Unparen(rs.X).(*ast.SelectorExpr)
			if !ok {
				return true
			}
			fld, ok := info.Uses[se.Sel].(*types.Var)
			if !ok || !fld.IsField() {
				return true
			}
			vid, ok := rs.Value.(*ast.Ident)
			if !ok {
				return true
			}
			vobj := info.ObjectOf(vid)
			ast.Inspect(rs.Body, func(k ast.Node) bool {
				call, ok := k.(*ast.CallExpr)
				if !ok || len(call.Args) != 2 {
					return true
				}
				s, ok := litOf(call.Args[0])
				if !ok || !strings.HasSuffix(strings.TrimSpace(s), "%d;") {
					return true
				}
				if id, ok := ast.Unparen(call.Args[1]).(*ast.Ident); ok && info.Uses[id] == vobj {
					words := strings.Fields(strings.TrimSuffix(strings.TrimSpace(s), "%d;"))
					if len(words) >= 2 {
						decls = append(decls, decl{fld, words[len(words)-1]})
					}
				}
				return true
			})
			return true
		})
	}
	if len(decls) == 0 {
		r.inst("member.keyagree", 0)
		return
	}
	for _, d := range decls {
		// 2. taint: range keys over d.field, through locals and struct fields (package-wide)
		taintObj := map[types.Object]bool{}
		for changed := true; changed; {
			changed = false
			for _, fn := range funcs {
				info := fn.Pkg.Info
				tainted := func(e ast.Expr) bool {
					hit := false
					ast.Inspect(e, func(k ast.Node) bool {
						switch x := k.(type) {
						case *ast.Ident:
							if taintObj[info.Uses[x]] {
								hit = true
							}
						case *ast.SelectorExpr:
							if taintObj[info.Uses[x.Sel]] {
								hit = true
							}
						case *ast.CallExpr:
							if tv, ok := info.Types[x.Fun]; !ok || !tv.IsType() {
								return false // results of calls are not positions
							}
						case *ast.IndexExpr:
							return false // F[i] is an element again
						}
						return !hit
					})
					return hit
				}
				set := func(o types.Object) {
					if o != nil && !taintObj[o] {
						taintObj[o] = true
						changed = true
					}
				}
				ast.Inspect(fn.Decl.Body, func(m ast.Node) bool {
					switch x := m.(type) {
					case *ast.RangeStmt:
						if se, ok := ast.Unparen(x.X).(*ast.SelectorExpr); ok && info.Uses[se.Sel] == d.field && x.Key != nil {
							if id, ok := x.Key.(*ast.Ident); ok && id.Name != "_" {
								set(info.ObjectOf(id))
							}
						}
					case *ast.AssignStmt:
						if len(x.Lhs) == len(x.Rhs) {
							for i := range x.Lhs {
								if !tainted(x.Rhs[i]) {
									continue
								}
								switch l := ast.Unparen(x.Lhs[i]).(type) {
								case *ast.Ident:
									set(info.ObjectOf(l))
								case *ast.SelectorExpr:
									set(info.Uses[l.Sel])
								}
							}
						}
					case *ast.KeyValueExpr:
						if id, ok := x.Key.(*ast.Ident); ok && tainted(x.Value) {
							if v, ok := info.Uses[id].(*types.Var); ok && v.IsField() {
								set(v)
							}
						}
					}
					return true
				})
			}
		}
		// 3. uses: "...<stem>%d..." with the matching argument tainted
		for _, fn := range funcs {
			info := fn.Pkg.Info
			ord := 0
			ast.Inspect(fn.Decl.Body, func(m ast.Node) bool {
				call, ok := m.(*ast.CallExpr)
				if !ok || len(call.Args) < 2 {
					return true
				}
				s, ok := litOf(call.Args[0])
				if !ok {
					return true
				}
				at := strings.Index(s, "."+d.stem+"%d")
				if at < 0 {
					return true
				}
				// which argument? count the verbs before it
				argIdx := 1
				for i := 0; i < at; i++ {
					if s[i] == '%' && i+1 < len(s) {
						if s[i+1] == '%' {
							i++
							continue
						}
						argIdx++
					}
				}
				if argIdx >= len(call.Args) {
					return true
				}
				n++
				ord++
				cons := fn.id() + ":." + d.stem + "%d#" + itoa(ord)
				arg := call.Args[argIdx]
				bad := false
				ast.Inspect(arg, func(k ast.Node) bool {
					switch x := k.(type) {
					case *ast.Ident:
						if taintObj[info.Uses[x]] {
							bad = true
						}
					case *ast.SelectorExpr:
						if taintObj[info.Uses[x.Sel]] {
							bad = true
						}
					}
					return !bad
				})
				if bad {
					r.viol(rule, cons, c.pos(call.Pos()), fn.id()+" prints "+types.ExprString(arg)+" as the number of a ."+d.stem+"%d member; that value is derived from a position in "+d.field.Name()+" (a range key), while the members are declared by the elements of "+d.field.Name()+": the member named does not exist or belongs to another entry unless the elements are 0, 1, 2, ...")
				} else {
					r.ok(rule, cons, c.pos(call.Pos()), "")
				}
				return true
			})
		}
	}
	r.inst("member.keyagree", n)
}

func init() {
	dumpers["memberkey"] = func(c *Ctx, parts []string) {
		r := newReport("dump")
		c.runMemberKeyAgree(r, "member.keyagree", "msl/internal/codegen")
		for _, o := range r.Obs {
			println(o.Verdict, o.Construct, o.Pos, o.Msg)
		}
	}
}
