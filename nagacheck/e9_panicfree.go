package main

// E9 panicfree: inventories of the ways Go code aborts, with syntactic
// dominance-style discharge.

import (
	"fmt"
	"go/ast"
	"go/constant"
	"go/token"
	"go/types"
	"strings"
)

type abortSite struct {
	Func   *funcInfo
	Kind   string // "panic" | "assert" | "intdiv" | "guard"
	Detail string
	Pos    token.Pos
}

func stripConv(info *types.Info, e ast.Expr) ast.Expr {
	for {
		e = ast.Unparen(e)
		call, ok := e.(*ast.CallExpr)
		if !ok || len(call.Args) != 1 {
			return e
		}
		if tv, ok := info.Types[call.Fun]; ok && tv.IsType() {
			e = call.Args[0]
			continue
		}
		return e
	}
}

func exprKey(info *types.Info, e ast.Expr) string { return types.ExprString(stripConv(info, e)) }

// lenArg: e is len(X) -> X
func lenArg(info *types.Info, e ast.Expr) (ast.Expr, bool) {
	call, ok := stripConv(info, e).(*ast.CallExpr)
	if !ok || len(call.Args) != 1 {
		return nil, false
	}
	if id, ok := ast.Unparen(call.Fun).(*ast.Ident); ok {
		if b, ok := info.Uses[id].(*types.Builtin); ok && b.Name() == "len" {
			return call.Args[0], true
		}
	}
	return nil, false
}

// guardOffByOne: a bounds guard of the wrong strictness protecting an index
// (contradiction rule: the code shows it believes the index needs a guard, and
// the guard it wrote admits the failing case).
//
//	variable index:  if i > len(s) { return } ... s[i]     (should be >=)
//	                 if i <= len(s) { ... s[i] ... }       (should be <)
//	constant index:  the guards on len(s) that precede s[c] establish at most
//	                 len(s) >= m with m <= c   (e.g. len(s) >= 3 && ... s[3])
func (c *Ctx) guardOffByOne(fn *funcInfo) []abortSite {
	info := fn.Pkg.Info
	var out []abortSite
	type guard struct {
		idx, slice string
		reject     bool // condition true means "out of range" (body exits)
		ifs        *ast.IfStmt
		minLen     int64 // for constant guards: established lower bound of len(slice); -1 for variable guards
		end        token.Pos
	}
	var guards []guard
	constOf := func(e ast.Expr) (int64, bool) {
		if tv, ok := info.Types[e]; ok && tv.Value != nil && tv.Value.Kind() == constant.Int {
			v, exact := constant.Int64Val(tv.Value)
			return v, exact
		}
		return 0, false
	}
	var collect func(e ast.Expr, ifs *ast.IfStmt, negated bool)
	collect = func(e ast.Expr, ifs *ast.IfStmt, negated bool) {
		be, ok := ast.Unparen(e).(*ast.BinaryExpr)
		if !ok {
			return
		}
		switch be.Op {
		case token.LOR, token.LAND:
			collect(be.X, ifs, negated)
			collect(be.Y, ifs, negated)
			return
		}
		// normalise to  X op len(S)
		x, y, op := be.X, be.Y, be.Op
		if _, ok := lenArg(info, x); ok {
			x, y = y, x
			switch op {
			case token.LSS:
				op = token.GTR
			case token.GTR:
				op = token.LSS
			case token.LEQ:
				op = token.GEQ
			case token.GEQ:
				op = token.LEQ
			}
		}
		sx, ok := lenArg(info, y)
		if !ok {
			return
		}
		slice := types.ExprString(ast.Unparen(sx))
		if k, isConst := constOf(x); isConst {
			// K op len(s)
			switch op {
			case token.GTR: // K > len: reject-form: afterwards len >= K
				guards = append(guards, guard{"", slice, true, ifs, k, be.End()})
			case token.GEQ: // K >= len: reject: afterwards len >= K+1
				guards = append(guards, guard{"", slice, true, ifs, k + 1, be.End()})
			case token.LEQ: // K <= len: accept: len >= K
				guards = append(guards, guard{"", slice, false, ifs, k, be.End()})
			case token.LSS: // K < len: accept: len >= K+1
				guards = append(guards, guard{"", slice, false, ifs, k + 1, be.End()})
			case token.EQL: // len == K: accept: len >= K ; (len == 0 as reject: len >= 1)
				guards = append(guards, guard{"", slice, false, ifs, k, be.End()})
				if k == 0 {
					guards = append(guards, guard{"", slice, true, ifs, 1, be.End()})
				}
			case token.NEQ: // len != K: reject: afterwards len == K ; (len != 0 as accept: len >= 1)
				guards = append(guards, guard{"", slice, true, ifs, k, be.End()})
				if k == 0 {
					guards = append(guards, guard{"", slice, false, ifs, 1, be.End()})
				}
			}
			return
		}
		switch op {
		case token.GTR: // i > len(s): rejects too little
			guards = append(guards, guard{exprKey(info, x), slice, true, ifs, -1, be.End()})
		case token.LEQ: // i <= len(s): accepts too much
			guards = append(guards, guard{exprKey(info, x), slice, false, ifs, -1, be.End()})
		}
	}
	ast.Inspect(fn.Decl.Body, func(n ast.Node) bool {
		if ifs, ok := n.(*ast.IfStmt); ok {
			collect(ifs.Cond, ifs, false)
		}
		return true
	})
	if len(guards) == 0 {
		return nil
	}
	leaves := func(ifs *ast.IfStmt) bool {
		if n := len(ifs.Body.List); n > 0 {
			switch ifs.Body.List[n-1].(type) {
			case *ast.ReturnStmt, *ast.BranchStmt:
				return true
			}
		}
		return false
	}
	protects := func(g guard, pos token.Pos) bool {
		if g.reject {
			// later operands of the same || chain are evaluated only when the guard is false
			return (leaves(g.ifs) && pos > g.ifs.End()) || (pos > g.end && pos < g.ifs.Body.Pos())
		}
		return pos >= g.ifs.Body.Pos() && pos <= g.ifs.Body.End() || (pos > g.ifs.Cond.Pos() && pos < g.ifs.Body.Pos())
	}
	// variable-index guards
	for _, g := range guards {
		if g.minLen >= 0 {
			continue
		}
		ast.Inspect(fn.Decl.Body, func(n ast.Node) bool {
			ix, ok := n.(*ast.IndexExpr)
			if !ok || !protects(g, ix.Pos()) {
				return true
			}
			if types.ExprString(ast.Unparen(ix.X)) == g.slice && exprKey(info, ix.Index) == g.idx {
				out = append(out, abortSite{fn, "guard", fmt.Sprintf("%s[%s] is guarded by a comparison with len(%s) that admits %s == len(%s)", g.slice, g.idx, g.slice, g.idx, g.slice), ix.Pos()})
				return false
			}
			return true
		})
	}
	// constant-index: best established lower bound among the guards that protect the site
	reported := map[string]bool{}
	ast.Inspect(fn.Decl.Body, func(n ast.Node) bool {
		ix, ok := n.(*ast.IndexExpr)
		if !ok {
			return true
		}
		cidx, isConst := constOf(ix.Index)
		if !isConst {
			return true
		}
		slice := types.ExprString(ast.Unparen(ix.X))
		best := int64(-1)
		for _, g := range guards {
			if g.minLen < 0 || g.slice != slice || !protects(g, ix.Pos()) {
				continue
			}
			if g.minLen > best {
				best = g.minLen
			}
		}
		if best >= 0 && cidx >= best {
			key := fmt.Sprintf("%s[%d]", slice, cidx)
			if !reported[key] {
				reported[key] = true
				out = append(out, abortSite{fn, "guard", fmt.Sprintf("%s[%d] is reached under guards that only establish len(%s) >= %d", slice, cidx, slice, best), ix.Pos()})
			}
		}
		return true
	})
	return out
}

// explicitAborts: panic / log.Fatal* / os.Exit calls.
func (c *Ctx) explicitAborts(fn *funcInfo) []abortSite {
	info := fn.Pkg.Info
	var out []abortSite
	ast.Inspect(fn.Decl.Body, func(n ast.Node) bool {
		call, ok := n.(*ast.CallExpr)
		if !ok {
			return true
		}
		if id, ok := ast.Unparen(call.Fun).(*ast.Ident); ok {
			if b, ok := info.Uses[id].(*types.Builtin); ok && b.Name() == "panic" {
				out = append(out, abortSite{fn, "panic", "explicit panic", call.Pos()})
			}
		}
		if f := calleeOf(info, call); f != nil && f.Pkg() != nil {
			if (f.Pkg().Path() == "log" && strings.HasPrefix(f.Name(), "Fatal")) || (f.Pkg().Path() == "os" && f.Name() == "Exit") {
				out = append(out, abortSite{fn, "panic", f.Pkg().Path() + "." + f.Name(), call.Pos()})
			}
		}
		return true
	})
	return out
}

// uncheckedAsserts: single-value type assertions not protected by a
// successful comma-ok assertion / type switch of the same expression.
func (c *Ctx) uncheckedAsserts(fn *funcInfo) []abortSite {
	info := fn.Pkg.Info
	var out []abortSite
	// positions of comma-ok forms and type switches
	okForms := map[*ast.TypeAssertExpr]bool{}
	checked := map[string]bool{} // "expr|type" proven somewhere in the function by comma-ok / switch
	ast.Inspect(fn.Decl.Body, func(n ast.Node) bool {
		switch x := n.(type) {
		case *ast.AssignStmt:
			if len(x.Lhs) == 2 && len(x.Rhs) == 1 {
				if ta, ok := ast.Unparen(x.Rhs[0]).(*ast.TypeAssertExpr); ok {
					okForms[ta] = true
					if ta.Type != nil {
						checked[types.ExprString(ta.X)+"|"+types.ExprString(ta.Type)] = true
					}
				}
			}
		case *ast.ValueSpec:
			if len(x.Names) == 2 && len(x.Values) == 1 {
				if ta, ok := ast.Unparen(x.Values[0]).(*ast.TypeAssertExpr); ok {
					okForms[ta] = true
				}
			}
		case *ast.TypeSwitchStmt:
			tag, _ := typeSwitchParts(x)
			ast.Inspect(x.Assign, func(m ast.Node) bool {
				if ta, ok := m.(*ast.TypeAssertExpr); ok {
					okForms[ta] = true
				}
				return true
			})
			if tag != nil {
				for _, cl := range x.Body.List {
					for _, te := range cl.(*ast.CaseClause).List {
						checked[types.ExprString(tag)+"|"+types.ExprString(te)] = true
					}
				}
			}
		}
		return true
	})
	ast.Inspect(fn.Decl.Body, func(n ast.Node) bool {
		ta, ok := n.(*ast.TypeAssertExpr)
		if !ok || ta.Type == nil || okForms[ta] {
			return true
		}
		key := types.ExprString(ta.X) + "|" + types.ExprString(ta.Type)
		if checkedAt(fn, info, key, ta) {
			return true // the same assertion is tested with comma-ok / a type switch that protects this use
		}
		out = append(out, abortSite{fn, "assert", "unchecked type assertion " + types.ExprString(ta), ta.Pos()})
		return true
	})
	return out
}

// checkedAt: an assertion "expr|type" is protected at `use` when the use lies
// inside (a) a type-switch arm for that type on the same expression, (b) the
// body of an `if v, ok := expr.(T); ok` / `if ok` statement following a
// comma-ok on the same expression, or (c) after a comma-ok whose failure branch
// leaves the function (`if !ok { return ... }`) in an enclosing statement list.
func checkedAt(fn *funcInfo, info *types.Info, key string, use *ast.TypeAssertExpr) bool {
	protected := false
	var lists [][]ast.Stmt
	var walk func(n ast.Node)
	inside := func(n ast.Node) bool { return n != nil && n.Pos() <= use.Pos() && use.End() <= n.End() }
	commaOK := func(st ast.Stmt) (okObj types.Object, matches bool) {
		as, ok := st.(*ast.AssignStmt)
		if !ok || len(as.Lhs) != 2 || len(as.Rhs) != 1 {
			return nil, false
		}
		ta, ok := ast.Unparen(as.Rhs[0]).(*ast.TypeAssertExpr)
		if !ok || ta.Type == nil || types.ExprString(ta.X)+"|"+types.ExprString(ta.Type) != key {
			return nil, false
		}
		if id, ok := as.Lhs[1].(*ast.Ident); ok {
			if o := info.Defs[id]; o != nil {
				return o, true
			}
			return info.Uses[id], true
		}
		return nil, true
	}
	var condIs func(cond ast.Expr, okObj types.Object, negated bool) bool
	condIs = func(cond ast.Expr, okObj types.Object, negated bool) bool {
		c := ast.Unparen(cond)
		if negated {
			// !ok   /   !ok || ...   (the failure branch)
			if be, ok := c.(*ast.BinaryExpr); ok && be.Op == token.LOR {
				return condIs(be.X, okObj, true) || condIs(be.Y, okObj, true)
			}
			u, ok := c.(*ast.UnaryExpr)
			if !ok || u.Op != token.NOT {
				return false
			}
			id, ok := ast.Unparen(u.X).(*ast.Ident)
			return ok && okObj != nil && info.Uses[id] == okObj
		}
		// ok as any conjunct of the condition
		if be, ok := c.(*ast.BinaryExpr); ok && be.Op == token.LAND {
			return condIs(be.X, okObj, false) || condIs(be.Y, okObj, false)
		}
		id, ok := c.(*ast.Ident)
		return ok && okObj != nil && info.Uses[id] == okObj
	}
	leaves := func(b *ast.BlockStmt) bool {
		if n := len(b.List); n > 0 {
			switch b.List[n-1].(type) {
			case *ast.ReturnStmt, *ast.BranchStmt:
				return true
			}
		}
		return false
	}
	walk = func(n ast.Node) {
		if n == nil || protected || !inside(n) {
			return
		}
		switch x := n.(type) {
		case *ast.TypeSwitchStmt:
			tag, _ := typeSwitchParts(x)
			if tag != nil {
				for _, cl := range x.Body.List {
					cc := cl.(*ast.CaseClause)
					if !inside(cc) || len(cc.List) != 1 {
						continue
					}
					if types.ExprString(tag)+"|"+types.ExprString(cc.List[0]) == key {
						protected = true
					}
				}
			}
		case *ast.IfStmt:
			if x.Init != nil {
				if okObj, m := commaOK(x.Init); m && inside(x.Body) && condIs(x.Cond, okObj, false) {
					protected = true
				}
			}
		}
		var list []ast.Stmt
		switch x := n.(type) {
		case *ast.BlockStmt:
			list = x.List
		case *ast.CaseClause:
			list = x.Body
		}
		if list != nil {
			lists = append(lists, list)
			// statements before the one containing the use
			for i, st := range list {
				if inside(st) {
					for _, prev := range list[:i] {
						// if _, ok := e.(T); !ok { continue / return }
						if ifs, isIf := prev.(*ast.IfStmt); isIf && ifs.Init != nil {
							if okObj, m := commaOK(ifs.Init); m && condIs(ifs.Cond, okObj, true) && leaves(ifs.Body) {
								protected = true
							}
						}
						if okObj, m := commaOK(prev); m {
							// any enclosing if on the way to the use that has ok as a conjunct
							ast.Inspect(st, func(e ast.Node) bool {
								if ifs, ok := e.(*ast.IfStmt); ok && inside(ifs.Body) && condIs(ifs.Cond, okObj, false) {
									protected = true
								}
								return !protected
							})
							// find the guard / accept-if that follows
							for _, nx := range list[:i+1] {
								if ifs, ok := nx.(*ast.IfStmt); ok && nx.Pos() > prev.Pos() {
									if condIs(ifs.Cond, okObj, true) && leaves(ifs.Body) && ifs.End() <= use.Pos() {
										protected = true
									}
									if condIs(ifs.Cond, okObj, false) && inside(ifs.Body) {
										protected = true
									}
								}
							}
						}
					}
					break
				}
			}
		}
		children(n, walk)
	}
	walk(fn.Decl.Body)
	return protected
}

// unguardedIntDiv: integer / and % whose divisor is neither a non-zero
// constant nor compared with zero anywhere earlier in the function.
func (c *Ctx) unguardedIntDiv(fn *funcInfo) []abortSite {
	info := fn.Pkg.Info
	var out []abortSite
	// expressions compared against 0 / 1 in conditions
	tested := map[string]bool{}
	ast.Inspect(fn.Decl.Body, func(n ast.Node) bool {
		be, ok := n.(*ast.BinaryExpr)
		if !ok {
			return true
		}
		switch be.Op {
		case token.EQL, token.NEQ, token.GTR, token.LSS, token.GEQ, token.LEQ:
			for _, pair := range [][2]ast.Expr{{be.X, be.Y}, {be.Y, be.X}} {
				if tv, ok := info.Types[pair[1]]; ok && tv.Value != nil && tv.Value.Kind() == constant.Int {
					if v, exact := constant.Int64Val(tv.Value); exact && (v == 0 || v == 1) {
						tested[exprKey(info, pair[0])] = true
					}
				}
			}
		}
		return true
	})
	ast.Inspect(fn.Decl.Body, func(n ast.Node) bool {
		var op token.Token
		var y ast.Expr
		var pos token.Pos
		switch x := n.(type) {
		case *ast.BinaryExpr:
			op, y, pos = x.Op, x.Y, x.Pos()
		case *ast.AssignStmt:
			if (x.Tok == token.QUO_ASSIGN || x.Tok == token.REM_ASSIGN) && len(x.Rhs) == 1 {
				op, y, pos = token.QUO, x.Rhs[0], x.Pos()
			}
		}
		if op != token.QUO && op != token.REM {
			return true
		}
		tv, ok := info.Types[y]
		if !ok || tv.Type == nil {
			return true
		}
		b, ok := types.Unalias(tv.Type).Underlying().(*types.Basic)
		if !ok || b.Info()&types.IsInteger == 0 {
			return true
		}
		if tv.Value != nil {
			return true // constant divisor (zero would not compile)
		}
		if tested[exprKey(info, y)] {
			return true
		}
		// divisor of the form max(x, 1) or x|1
		if call, ok := stripConv(info, y).(*ast.CallExpr); ok {
			if id, ok := ast.Unparen(call.Fun).(*ast.Ident); ok && id.Name == "max" {
				return true
			}
		}
		// len(x)/cap: tested if len(x) compared
		out = append(out, abortSite{fn, "intdiv", "integer division by " + types.ExprString(y) + " without a zero test in this function", pos})
		return true
	})
	return out
}

func (c *Ctx) runPanicfree(r *Report, pkg func(string) bool, reach map[*types.Func]bool, exceptions map[string]string) {
	counts := map[string]int{}
	ord := map[string]int{}
	emit := func(rule string, s abortSite) {
		k := s.Func.id() + ":" + s.Kind
		ord[k+s.Detail]++
		construct := s.Func.id() + ":" + s.Detail
		if ord[k+s.Detail] > 1 {
			construct = fmt.Sprintf("%s#%d", construct, ord[k+s.Detail])
		}
		construct = strings.ReplaceAll(construct, " ", "_")
		if reason, ok := exceptions[construct]; ok {
			r.exc(rule, construct, c.pos(s.Pos), reason)
			return
		}
		if reason, ok := exceptions[s.Func.id()+":"+s.Kind]; ok {
			r.exc(rule, construct, c.pos(s.Pos), reason)
			return
		}
		r.viol(rule, construct, c.pos(s.Pos), s.Func.id()+": "+s.Detail)
	}
	nf := 0
	for _, fn := range c.allFuncs() {
		if pkg != nil && !pkg(fn.Pkg.Rel) {
			continue
		}
		if reach != nil && (fn.Obj == nil || !reach[fn.Obj]) {
			continue
		}
		nf++
		for _, s := range c.guardOffByOne(fn) {
			counts["guard"]++
			emit("abort.guard", s)
		}
		for _, s := range c.explicitAborts(fn) {
			counts["panic"]++
			emit("abort.panic", s)
		}
		for _, s := range c.uncheckedAsserts(fn) {
			counts["assert"]++
			emit("abort.assert", s)
		}
		for _, s := range c.unguardedIntDiv(fn) {
			counts["intdiv"]++
			emit("abort.intdiv", s)
		}
	}
	// totals inspected (for the evidence): single-value assertions and non-constant integer divisions
	totAssert, totDiv := 0, 0
	for _, fn := range c.allFuncs() {
		if pkg != nil && !pkg(fn.Pkg.Rel) {
			continue
		}
		info := fn.Pkg.Info
		ast.Inspect(fn.Decl.Body, func(n ast.Node) bool {
			switch x := n.(type) {
			case *ast.TypeAssertExpr:
				if x.Type != nil {
					totAssert++
				}
			case *ast.BinaryExpr:
				if x.Op == token.QUO || x.Op == token.REM {
					if tv, ok := info.Types[x.Y]; ok && tv.Value == nil && tv.Type != nil {
						if b, ok := types.Unalias(tv.Type).Underlying().(*types.Basic); ok && b.Info()&types.IsInteger != 0 {
							totDiv++
						}
					}
				}
			}
			return true
		})
	}
	r.Extra["abort.type_assertions_inspected"] = totAssert
	r.Extra["abort.integer_divisions_inspected"] = totDiv
	r.inst("abort.functions", nf)
	r.ok("abort.inventory", "functions-scanned", "", fmt.Sprintf("%d functions scanned for explicit aborts, unchecked assertions, unguarded integer division and off-by-one bounds guards", nf))
	for k, v := range counts {
		r.Extra["abort."+k+".sites"] = v
	}
}

func init() {
	dumpers["panicfree"] = func(c *Ctx, parts []string) {
		r := newReport("dump")
		c.runPanicfree(r, nil, nil, nil)
		for _, o := range r.Obs {
			if o.Verdict != OK {
				fmt.Println(o.Verdict, o.Rule, o.Construct, o.Pos)
			}
		}
		fmt.Println(r.Extra)
	}
}
